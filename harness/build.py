"""abstract term description -> real mathy_core objects through the public constructors."""
from . import common  # noqa


def build(t):
    from mathy_core import expressions as E
    k = t[0]
    if k == "c":
        return E.ConstantExpression(t[1])
    if k == "pc":
        # a user-defined literal: a ConstantExpression subclass whose evaluate() gives value / 100 (evaluation is polymorphic:
        # whatever node sits in an operand position is asked for ITS value)
        class Percent(E.ConstantExpression):
            def evaluate(self, context=None):
                return self.value / 100
        return Percent(t[1])
    if k == "v":
        return E.VariableExpression(t[1])
    if k == "neg":
        return E.NegateExpression(build(t[1]))
    if k == "fact":
        return E.FactorialExpression(build(t[1]))
    if k == "sgn":
        return E.SgnExpression(build(t[1]))
    if k == "abs":
        return E.AbsExpression(build(t[1]))
    cls = {"add": E.AddExpression, "sub": E.SubtractExpression, "mul": E.MultiplyExpression, "div": E.DivideExpression,
           "pow": E.PowerExpression, "eq": E.EqualExpression}[k]
    return cls(build(t[1]), build(t[2]))
