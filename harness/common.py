"""Shared plumbing of the checks: context, violations, known findings, evidence, exit codes."""
import hashlib
import json
import os
import shutil
import sys
import time

ROOT = os.path.dirname(os.path.dirname(os.path.abspath(__file__)))
REPO = os.environ.get("VERIF_REPO", "/repo")
# evidence and replays of runs against a copy of the repository (tooling only) never overwrite the real ones
OUT = ROOT if REPO == "/repo" else os.path.join(ROOT, ".work", "alt-" + os.path.basename(REPO.rstrip("/")))
if REPO not in sys.path:
    sys.path.insert(0, REPO)


class Ctx:
    def __init__(self, prop, tier, seed):
        self.prop = prop
        self.tier = tier
        self.seed = seed
        self.quick = tier == "quick"
        self.work = os.path.join(ROOT, ".work", "%s-%d" % (prop, os.getpid()))
        os.makedirs(self.work, exist_ok=True)
        self.t0 = time.time()

    def cleanup(self):
        shutil.rmtree(self.work, ignore_errors=True)


class Violation:
    """One rejected observation. `sig` identifies the root cause (see DESIGN.md section 8),
    `case` is a JSON-serialisable description sufficient to re-execute it with --replay."""

    def __init__(self, sig, what, case, clauses=None):
        self.sig = sig
        self.what = what
        self.case = case
        self.clauses = clauses or []


class Result:
    def __init__(self):
        self.evaluations = 0
        self.distinct_nontrivial = 0
        self.rule = ""
        self.samples = []
        self.states = 0
        self.transitions = 0
        self.traces = 0
        self.violations = []
        self.extra = {}
        self.assumptions = []
        self.exhaustive = False
        self.tlc_cmds = []

    def add_tlc(self, r, label=""):
        self.states += r.distinct
        self.transitions += r.generated
        if len(self.tlc_cmds) < 6:
            self.tlc_cmds.append((label + ": " if label else "") + r.cmd)


def load_known():
    path = os.path.join(ROOT, "known_findings.json")
    if not os.path.exists(path):
        return {"findings": [], "fixed": []}
    with open(path) as f:
        return json.load(f)


def known_signatures(prop):
    """Map signature -> description for the listed (unfixed) findings of one property. A finding
    may carry `sig` (one signature) or `sig_file` (a committed file with one signature per line)."""
    sigs = {}
    for f in load_known().get("findings", []):
        if f.get("property") != prop:
            continue
        if "sig" in f:
            sigs[f["sig"]] = f
        for x in f.get("sigs", []):
            sigs[x] = f
        if "sig_file" in f:
            with open(os.path.join(ROOT, f["sig_file"])) as fh:
                for line in fh:
                    line = line.strip()
                    if line:
                        sigs[line] = f
    return sigs


def finish(ctx, res, level="model_checking"):
    """Map violations to known findings, print the interface lines, write the evidence file,
    return the exit code."""
    known = known_signatures(ctx.prop)
    hit = {}
    new = {}
    for v in res.violations:
        if v.sig in known:
            hit.setdefault(id(known[v.sig]), [known[v.sig], 0, v])[1] += 1
        else:
            new.setdefault(v.sig, []).append(v)
    for _, (f, n, v) in sorted(hit.items(), key=lambda kv: kv[1][0].get("id", "")):
        print("KNOWN-FINDING: property=%s %s [%s; %d explored case(s), e.g. %s]" % (
            ctx.prop, f["description"], f.get("id", "?"), n, v.what))
    os.makedirs(os.path.join(OUT, "replays"), exist_ok=True)
    nviol = 0
    for sig, vs in sorted(new.items()):
        v = min(vs, key=lambda x: len(json.dumps(x.case)))
        h = hashlib.sha1(sig.encode()).hexdigest()[:10]
        rel = "replays/%s-%s.json" % (ctx.prop, h)
        with open(os.path.join(OUT, rel), "w") as f:
            json.dump({"property": ctx.prop, "signature": sig, "what": v.what, "clauses": v.clauses,
                       "case": v.case, "count": len(vs)}, f, indent=1)
        print("VIOLATION property=%s replay=%s  # %s (%d case(s)) sig=%s" % (ctx.prop, rel, v.what, len(vs), sig))
        nviol += 1
    wall = time.time() - ctx.t0
    cov = {
        "states": int(res.states),
        "transitions": int(res.transitions),
        "traces_validated_against_impl": int(res.traces),
        "samples": res.samples[:8] if res.samples else ["(none)"],
        "evaluations": int(res.evaluations),
        "distinct_nontrivial": int(res.distinct_nontrivial),
        "rule": res.rule,
        "exhaustive": bool(res.exhaustive),
        "tlc_cmds": res.tlc_cmds,
        "known_findings_hit": {f.get("id", "?"): n for _, (f, n, v) in hit.items()},
        "new_violation_signatures": sorted(new)[:50],
    }
    cov.update(res.extra)
    ev = {
        "property_id": ctx.prop,
        "tier": ctx.tier,
        "seed": int(ctx.seed),
        "level": level,
        "coverage": cov,
        "assumptions": res.assumptions,
        "wall_s": round(wall, 2),
        "violations": nviol,
    }
    out = OUT if not getattr(ctx, "replay", False) else os.path.join(ROOT, ".work", "replay")   # a replay never overwrites the evidence of a real run
    os.makedirs(os.path.join(out, "evidence"), exist_ok=True)
    with open(os.path.join(out, "evidence", ctx.prop + ".json"), "w") as f:
        json.dump(ev, f, indent=1, default=str)
    print("%s %s: %d evaluations, %d real executions validated, %d TLC states, %d known-finding cases, %d new violation signature(s), %.1fs" % (
        ctx.prop, ctx.tier, res.evaluations, res.traces, res.states, sum(x[1] for x in hit.values()), nviol, wall))
    return 1 if nviol else 0


def pick(key, n):
    """a choice among n that depends on the item only (not on which worker handles it or what that worker did before), so that
    every run of a check makes the same choices"""
    import zlib
    return zlib.crc32(str(key).encode("utf-8", "replace")) % n


_BUMPED = []


def process_noise(k=0):
    """Exercise other public APIs - including calls that raise half-way - so that state they might leave behind at module
    or class level (rendering flags, numpy error state, id counters, module-level caches) is present when the observed call
    runs. Called by the drivers before observations; it must never influence a correct implementation."""
    try:
        from mathy_core.parser import ExpressionParser
        from mathy_core.expressions import AddExpression, ConstantExpression, VariableExpression, AbsExpression
        from mathy_core.layout import TreeLayout
        from mathy_core import problems
        if k % 5 == 0 and not _BUMPED:
            # once per process: push the library's global node-id counter past a size class (ids get longer, cross 2^16 / 10^5 ...)
            _BUMPED.append(1)
            from mathy_core.expressions import ConstantExpression as _C
            for _ in range((1200, 70000, 140000, 9000)[k % 4]):
                _C(1)
        p = ExpressionParser()
        t = p.parse("4x + 2y^3 - sgn(x)")
        for f in (lambda: t.terminal_text, lambda: t.to_math_ml(), lambda: t.evaluate({"x": 1.5, "y": -2}), lambda: TreeLayout().layout(t),
                  lambda: t.add_class("noise"), lambda: t.clear_classes(), lambda: problems.gen_binomial_times_monomial(),
                  lambda: str(t), lambda: t.clone().all_changed()):
            try:
                f()
            except BaseException:  # noqa
                pass
        broken = AddExpression(ConstantExpression(2), None)          # a node with a missing operand: every renderer raises on it
        changed = AddExpression(ConstantExpression(2), VariableExpression("x"))
        changed.all_changed()
        calls = [lambda: changed.terminal_text, lambda: broken.terminal_text, lambda: str(broken), lambda: broken.evaluate({}), lambda: broken.to_math_ml(),
                 lambda: t.evaluate({}), lambda: p.parse("4 +"), lambda: p.parse("(((1.2.3"), lambda: p.parse("x # y"), lambda: TreeLayout().layout(broken)]
        r = k % len(calls)
        late = []
        for f in calls[r:] + calls[:r]:          # a different call is the LAST one each time (what a failing call leaves behind is not repaired by a later good one)
            try:
                f()
            except BaseException:  # noqa
                late.append(f)
        for f in late[:1 + k % 3]:
            try:
                f()
            except BaseException:  # noqa
                pass
        try:
            from mathy_core.tokenizer import Tokenizer
            # the token lists a parser hands out are the caller's to edit, Token objects included (C12)
            for toks in (p.tokenize("1 + 2 - 3 * 4 / 5 ^ 6 ! = ( ) sgn(x)"), p.tokenize("7 - (2)"), p.tokenize("4x + 2y^3 - sgn(x)")):
                for tk in toks:
                    tk.value = "#"
                    tk.type = 1 << 13
        except BaseException:  # noqa
            pass
        try:
            from mathy_core.util import get_terms, get_term_ex
            for n in t.to_list():
                n.classes.append("edited-in-place")
                n.classes += ["more"]
            for term in get_terms(t):
                get_term_ex(term)
        except BaseException:  # noqa
            pass
        if k % 2 == 0:
            q = ExpressionParser()
            q.tokenizer.functions["abs"] = AbsExpression                # another parser in this process knows one more function
            for text in ("abs(x)", "2abs(x - 1)", "abs"):
                try:
                    q.parse(text)
                    q.tokenize(text)
                except BaseException:  # noqa
                    pass
    except BaseException:  # noqa
        pass


class Pool:
    """multiprocessing.Pool-like map over worker processes that cannot hang silently: if a worker dies (killed, fatal signal) the
    run fails as a machinery failure (BrokenProcessPool -> exit 2) instead of waiting forever for the lost task, and a map that
    makes no progress for `stall` seconds is abandoned the same way."""

    def __init__(self, n=16, stall=1500):
        import concurrent.futures as cf
        import multiprocessing as mp
        self.n = n
        self.stall = stall
        self.ex = cf.ProcessPoolExecutor(max_workers=n, mp_context=mp.get_context("fork"))

    def __enter__(self):
        return self

    def __exit__(self, *a):
        self.ex.shutdown(wait=False, cancel_futures=True)
        return False

    def map(self, func, items, chunksize=1):
        items = list(items)
        if not items:
            return []
        return list(self.ex.map(func, items, chunksize=max(1, chunksize), timeout=self.stall))
