"""Runs REWRITE jobs in a child interpreter started with -O (assert statements are stripped, __debug__ is False): what the rules
do must not depend on that. Reads a JSON list of jobs on stdin, writes the events as one JSON document on stdout."""
import json
import sys
import warnings


def main():
    warnings.filterwarnings("ignore")
    from . import rewrite
    jobs = json.load(sys.stdin)
    out = []
    for job in jobs:
        try:
            for e in rewrite._events_for_text(tuple(job)):
                e["text"] = "[python -O] " + e["text"]
                out.append(e)
        except BaseException:  # noqa
            pass
    json.dump({"debug": __debug__, "events": out}, sys.stdout)


if __name__ == "__main__":
    main()
