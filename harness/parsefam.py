"""PARSE family: fresh-parser parse(text) events, validated against Grammar.tla (C03) and the error
contract / well-formedness (C10)."""
import itertools
import random
import re

from . import common, project, tlc
from .common import Result, Violation

SYMS = ["2", "3", "x", "y", "+", "-", "*", "/", "^", "!", "(", ")", "=", "sgn"]
C03_CLAUSES = {"accepts_underivable", "rejects_derivable", "value", "operands", "vars", "repeat_differs", "long_lived_parser_differs"}
C10_CLAUSES = {"error_contract", "unsupported_char_not_valueerror", "result_not_expression", "hang"}


def render(tokens, style=0):
    """token list -> text preserving the token sequence. style 0: single spaces; 1: compact where
    that cannot merge tokens; 2: padded with tabs/newlines and bracket / en-dash aliases."""
    if style == 0:
        return " ".join(tokens)
    out = []
    for k, t in enumerate(tokens):
        if out:
            prev = tokens[k - 1]
            glue = (prev[-1].isdigit() or prev[-1] == ".") and (t[0].isdigit() or t[0] == ".")
            glue = glue or (prev[-1].isalpha() and t[0].isalpha() and (len(prev) > 1 or len(t) > 1 or _spells_fn(tokens, k)))
            if style == 2:
                out.append(["  ", "\t", " \n ", " "][k % 4])
            elif glue:
                out.append(" ")
        if style == 2:
            t = {"(": "[", ")": "]", "-": "–"}.get(t, t) if k % 2 else t
        out.append(t)
    return "".join(out)


def _spells_fn(tokens, k):
    # adjacent single letters that would spell "sgn" when glued
    j = k
    while j > 0 and len(tokens[j - 1]) == 1 and tokens[j - 1].isalpha():
        j -= 1
    e = k
    while e < len(tokens) and len(tokens[e]) == 1 and tokens[e].isalpha():
        e += 1
    return "sgn" in "".join(tokens[j:e])


_SHARED = {}


def shared_parse_same(text, outcome, term):
    """the same text on a long-lived parser of this worker process that has already seen thousands of other texts -
    and, just before, look-alikes of this one (blanks removed, lower-cased) - must behave as on the fresh parser"""
    from mathy_core.parser import ExpressionParser
    p = _SHARED.get("p")
    if p is None or _SHARED["n"] > 4000:
        p = _SHARED["p"] = ExpressionParser()
        _SHARED["n"] = 0
    _SHARED["n"] += 1
    for alike in {text.replace(" ", ""), text.lower(), text.replace(" ", "").lower()} - {text}:
        try:
            p.parse(alike)
        except BaseException:  # noqa
            pass
    try:
        t = p.parse(text)
        return outcome == "ok" and term is not None and project.term(t) == term
    except BaseException as e:  # noqa
        return type(e).__name__ == outcome


_NOISE = [0]


def depth_of(t):
    d, stack = 0, [(t, 1)]
    while stack:
        n, k = stack.pop()
        d = max(d, k)
        for c in ("l", "r", "c"):
            if isinstance(n.get(c), dict):
                stack.append((n[c], k + 1))
    return d


LIFTED = "\u2295 "      # marker: the text is parsed in a process that has lifted CPython's digit limit (sys.set_int_max_str_digits(0))


def make_event(text):
    if text.startswith(LIFTED):
        import sys
        old = sys.get_int_max_str_digits()
        sys.set_int_max_str_digits(0)
        try:
            ev = _make_event(text[len(LIFTED):])
        finally:
            sys.set_int_max_str_digits(old)
        ev["lifted"] = True
        return ev
    return _make_event(text)


def _make_event(text):
    from mathy_core.parser import ExpressionParser
    if common.pick(text, 200) == 0:
        common.process_noise(common.pick(text, 997))
    import signal
    ev = {"buf": [ord(c) for c in text]}

    def _alarm(signum, frame):
        raise TimeoutError("parse did not terminate within 10 s")
    signal.signal(signal.SIGALRM, _alarm)
    signal.alarm(10)
    try:
        try:
            parser = ExpressionParser()
            try:
                tree = parser.parse(text)
            finally:
                # the same text once more on the same parser: acceptance and result must not change
                try:
                    again = parser.parse(text)
                    ev["rep"] = {"outcome": "ok", "same": None, "tree": again}
                except BaseException as e2:  # noqa
                    ev["rep"] = {"outcome": type(e2).__name__, "same": True}
        finally:
            signal.alarm(0)
    except TimeoutError:
        ev["outcome"] = "Timeout"
        ev["shared_same"] = True
        ev["rep"] = {"outcome": "Timeout", "same": True}
        return ev
    except RecursionError:
        ev["outcome"] = "RecursionError"
        ev["shared_same"] = True
        ev["rep"] = {"outcome": "RecursionError", "same": True}
        return ev
    except BaseException as e:  # noqa
        ev["outcome"] = type(e).__name__
        if "rep" in ev and "tree" in ev["rep"]:
            ev["rep"].pop("tree")
            ev["rep"]["same"] = False
        ev.setdefault("rep", {"outcome": ev["outcome"], "same": True})
        ev["shared_same"] = shared_parse_same(text, ev["outcome"], None)
        return ev
    try:
        ev["term"] = project.term(tree)
        ev["shared_same"] = shared_parse_same(text, ev["outcome"] if "outcome" in ev else "ok", ev["term"])
        ev["deep"] = depth_of(ev["term"]) > 120
        if "tree" in ev["rep"]:
            ev["rep"]["same"] = project.term(ev["rep"].pop("tree")) == ev["term"]
        objs = project.ObjTable()
        ev["h"] = project.snapshot(objs, [tree])
        ev["root"] = objs.of(tree)
        ev["outcome"] = "ok"
    except BaseException as e:  # noqa  (cyclic / non-expression result)
        ev["outcome"] = "ok"
        ev["rep"] = {"outcome": "ok", "same": True}
        ev["shared_same"] = True
        ev["term"] = {"k": "other"}
        objs = project.ObjTable()
        ev["h"] = project.snapshot(objs, [tree]) if hasattr(tree, "left") else {"n": 0}
        ev["root"] = 1
    return ev


def all_token_strings(n):
    for k in range(1, n + 1):
        for s in itertools.product(SYMS, repeat=k):
            yield list(s)


def tlc_sentences(ctx, res, maxlen):
    """(G) run the grammar model; returns the sentences it emitted (lists of symbol strings)."""
    r = tlc.run("MC_Grammar", "MC_Grammar_%d.cfg" % maxlen, ctx.work, workers=16, timeout=2400, xmx="12g")
    res.add_tlc(r, "grammar model")
    if not r.ok():
        raise tlc.TLCError("Grammar specification violates its own lemma %s\n%s" % (r.violated, r.out[-2000:]))
    sents = [[SYMS[int(i) - 1] for i in m.group(1).replace(" ", "").split(",")] for m in re.finditer(r'^<<"S", <<([\d, ]+)>>>>', r.out, re.M)]
    return sorted(sents)          # (16 TLC workers print in a different order every run; the samples drawn from the list must not)


OPERAND_VARIANTS = [{"2": "0", "3": "1"}, {"2": "0.5", "3": "12"}, {"2": "7", "3": "2.25", "x": "z", "y": "x"},
                    {"2": "1", "3": "0", "y": "x"}, {"x": "y"}, {"2": "10000000000000001", "3": "9007199254740993"}]


def substitute(toks, m):
    return [m.get(t, t) for t in toks]


CURATED = [
    "xy^2", "2xy^2", "-xy^2", "xyz^3", "x(y)^2", "(x)(y)^2", "4 / 2 * 3", "8 / 2 / 2", "a / b * c", "a / b / c", "a * b / c", "a - b - c",
    "a - b + c", "2^3^2", "x^2^3", "-2^2", "-x^2", "2x^-2", "2^-x", "-5!", "5!", "3! + 2", "2 * 3!", "sgn(x)", "sgn(-3)x", "2sgn(x)^2",
    "x sgn(y)", "1.5x", ".5x", "5.", "1.2.3", ".", "1..2", "0.1 + 0.2", "7 + 4x - 2 = 3", "x = y = 2", "[x + 2] * 3", "4x–2",
    "12345678901234567891 + 1", "9007199254740993 - 9007199254740992", "2(10000000000000001)",
    "2.9999999999x + 1", "1e5", "2e", "x e", "(((((x)))))", "((x + 1)(x - 1))^2", "x(", "()", "( )", "2 +", "+ 2", "2 2", "x 2", "(2)(3)",
    "2(3)", "(2)3", "x!", "(3)!", "2!!", "!", "^", "=", "2 = ", "= 2", "x ^ ^ 2", "sgn", "sgn x", "sgn()", "sgn(x", "abs(x)", "2abs(x - 1)", "abs", "absolute(x) + 1", "4x\r\ny", "7 +\r\n2x", "2\r\n3x", "x\r\n+ 1", "x \r\n y", "\r\nx", "x\r\n", "2\r\n\r\n3", "sgn(\r\nx)", "4\rx", "4\n\rx", "1.5\r\n2", "-(-x)", "--x",
    "- - x", "2 - -x", "2--2", "2 - - 2", "4x^2^", "1/0", "x/(y-y)", "0x = 0", "4 + -3", "4 +- 3", "4 -+ 3", "a+b=c+d=e", "2x^(1+1)",
    "x^(y)", "x^y^z", "(x^y)^z", "(2^3)^2", "((x^2)^3)^2", "(x^-2)^y", "3 / -((x + 1) * y)", "x^-((x + 1) * y)", "2 / -((x - 1) / y)", "-((x + 1) * y) / 3",
    "SGN(x)", "Sgn(2)", "sGn(x) + 1", "2SGN(x^2) = 1", "4 + Sgn(-3y)", "sgN x", "xy^2^3", "2x^2^3", "x^2^3^2", "xyz^2^y", "0.00005x + 1", "0.001 * 0.02", "0.0000004x",
    "9007199254740993x", "x^9007199254740993", "123456789012345678x^2",
    "x / -(-4y)", "x^-(-2y)", "3 - -(-2x)", "2 * " + "1" * 40, "2" + "x" * 40, "(" + "7" * 35 + ")", "2 + " + "9" * 33 + "x", "3e-5x", "1e5 + 2", "2E3x", "4Sgn(x - 9)", "SGN + 1",
    "3x + 4X", "xX", "aA + Aa", "X^2 + x^2", "Kk",
    "(-x)^2", "(2x)^2", "-(3^2)", "-(3^2 * x)", "-(2!)", "4 - -(x * y)", "(x / y) / z", "x / (y / z)", "x / (y * z)", "(x * y) / z", "x - (y - z)", "x - (y + z)", "(x+1)^(y-1)", "2^x y", "xy z^2 w", "3xyz", "-3xyz^2", "1 000", "1,000", "x_1", "x#", "٣", "é + 1",
]


# literals around CPython's 4300-digit limit for int <-> text conversion
# a coefficient times a power whose base is not a plain variable (factorial, function, group, negation, constant): how the
# product is printed (compactly as 4x^2, or with an explicit operator) decides whether the text reads back as the same tree
COEF_POWER_FORMS = ["%s * %s^%s" % (c, u, e) for c in ("2", "0.5", "12") for u in ("3!", "sgn(x)", "(-x)", "(x + 1)", "x", "4", "(2x)", "y", "(3!)", "sgn(x)!"[:6])
                    for e in ("x", "2", "(y + 1)", "-1")] + ["2 * 3!", "2 * 3! * x", "4 * sgn(x)", "x * 3!^2", "2 * -3!^2", "2 * (3!^x)^2", "7 * 2^3!", "3!^x * 2", "2sgn(x)^2", "2(3!)^x"]
LONG_LITERALS = ["9" * 4301 + "x + 1", "2 * " + "7" * 4400, "4x^" + "1" * 4305, "x + " + "12" * 600, "8" * 1000 + " - 1"]
# exactly at the limit (read correctly by the pinned code); the reference grammar needs ~90 s per such text, so thorough tier only
LONG_LITERALS_AT_LIMIT = ["1" + "0" * 4299, "x + " + "12" * 2150]


def chains(ctx):
    out = []
    for n in ([50, 120] if ctx.quick else [50, 120, 200, 300]):
        out.append(" + ".join("x%s" % "" for _ in range(n)).replace("x", "2x"))
        out.append(" * ".join(["y"] * n))
        out.append(" - ".join(["3"] * n))
        out.append(" / ".join(["x"] * n))
        out.append("".join(["x"] * n))
        out.append(" = ".join(["x"] * min(n, 60)))
    # long inputs that fail at their very end (error paths that render the input)
    for n in (24, 25, 48, 49, 50, 64, 65, 100):
        for op in (" * ", " / ", " - ", " + ", " ^ ", " = "):
            body = op.join(["y"] * n)
            out.append(body + op.rstrip())
            out.append(body + op + "(")
            out.append(body + op + "-")
            out.append(body + " )")
            out.append("(" + body)
    for d in ([10, 25] if ctx.quick else [10, 25, 40]):
        out.append("(" * d + "x" + ")" * d)
        out.append("".join("(x + " for _ in range(d)) + "1" + ")" * d)
        out.append("-(" * d + "x" + ")" * d)
        out.append("sgn(" * d + "x" + ")" * d)
        out.append("(" * d + "x" + ")" * (d - 1))
        out.append("2^(" * d + "x" + ")" * d)
    return out


def soups(ctx, sentences):
    rng = random.Random(ctx.seed * 7919 + 1)
    out = []
    pool = SYMS + ["0", "1.5", "z", " ", "[", "]", "–", ".", "12", "abs", "#"]
    for _ in range(1500 if ctx.quick else 40000):
        n = rng.randint(1, 14)
        out.append(render([rng.choice(pool) for _ in range(n)], rng.choice([0, 1])))
    # truncations and single-token deletions / insertions of valid sentences
    base = sentences[:]
    rng.shuffle(base)
    for s in base[: (300 if ctx.quick else 4000)]:
        for cut in range(1, len(s)):
            out.append(render(s[:cut], 0))
        k = rng.randrange(len(s))
        out.append(render(s[:k] + s[k + 1:], 0))
        out.append(render(s[:k] + [rng.choice(SYMS)] + s[k:], 1))
    return out


def domain(ctx, res):
    n_all = 4 if ctx.quick else 5
    n_sent = 5 if ctx.quick else 6
    sentences = tlc_sentences(ctx, res, n_sent)
    texts = []
    for toks in all_token_strings(n_all):
        texts.append(render(toks, 0))
    n1 = len(texts)
    for s in sentences:
        texts.append(render(s, 0))
        texts.append(render(s, 1))
        if len(s) >= 3:
            texts.append(render(s, 2))
        for m in OPERAND_VARIANTS[: (2 if ctx.quick else 6)]:
            if any(t in m for t in s):
                texts.append(render(substitute(s, m), 1))
    n2 = len(texts)
    from . import rewrite
    texts += CURATED + COEF_POWER_FORMS + LONG_LITERALS + ([] if ctx.quick else LONG_LITERALS_AT_LIMIT) + chains(ctx) + soups(ctx, sentences)
    texts += [t for t in rewrite.big_count_prints() if isinstance(t, str)]          # 60..170 function calls / 30..85 parenthesised products in one text
    seen = set()
    uniq = []
    for t in texts:
        if t not in seen:
            seen.add(t)
            uniq.append(t)
    rule = ("all %d token strings of length <= %d over the 14-symbol alphabet; all %d sentences of the reference grammar with <= %d tokens "
            "emitted by TLC, each rendered spaced / compact / padded-with-aliases and with operand substitutions (0, 1, decimals, 17-20 digit "
            "literals, renamed variables); %d curated texts; operand chains up to %d and nesting up to %d; seeded token soups, truncations, "
            "deletions and insertions" % (n1, n_all, len(sentences), n_sent, len(CURATED), 120 if ctx.quick else 300, 25 if ctx.quick else 40))
    return uniq, sentences, rule


def classify(text):
    """signature material: token-kind pattern of the text with every operand abstracted to `o`"""
    t = re.sub(r"sgn", "\x01", text)
    t = re.sub(r"[0-9.]+", "o", t)
    t = re.sub(r"[A-Za-z]", "o", t)
    t = t.replace("\x01", "f")
    t = re.sub(r"\s+", "", t).replace("[", "(").replace("]", ")").replace("–", "-")
    return t


def minimal_window(text, failing_patterns):
    """shortest token-kind pattern (by length, then lexicographic) among the failing ones that is a
    substring of this text's pattern - two failures with one root cause share it"""
    pat = classify(text)
    best = pat
    for p in failing_patterns:
        if p in pat and (len(p), p) < (len(best), best):
            best = p
    return best


def run_family(ctx, cases, prop, clauses_of_interest):
    res = Result()
    sentences = []
    if cases is None:
        texts, sentences, res.rule = domain(ctx, res)
        res.exhaustive = True
    else:
        texts = [c["text"] for c in cases]
        res.rule = "replay"
    from .common import Pool
    import sys
    sys.setrecursionlimit(10000)
    with Pool(16) as pool:
        events = pool.map(make_event, texts, chunksize=500)
    for e in events:
        e.setdefault("deep", False)
    send = [dict(e, term={"k": "deep"}) if e["deep"] else e for e in events]
    fails, st = tlc.validate_sharded("TraceParse", "TraceParse.cfg", send, ctx.work, shard_size=max(1500, len(events) // 32 + 1), timeout=1800)
    res.states += st["distinct"]; res.transitions += st["generated"]
    res.traces = len(events)
    res.evaluations = len(events)
    accepted = [k for k, e in enumerate(events) if e["outcome"] == "ok"]
    res.distinct_nontrivial = len(accepted) + len({classify(t) for t, e in zip(texts, events) if e["outcome"] != "ok"})
    res.rule += " | non-trivial = distinct accepted texts + distinct token-kind patterns of rejected texts"
    drift = sum(1 for c in fails.values() if "drift_ast" in c)
    res.extra.update({"validator": st, "accepted": len(accepted), "rejected": len(events) - len(accepted),
                      "exception_classes": sorted({e["outcome"] for e in events}),
                      "drift_ast_vs_reference_grouping": drift})
    k = accepted[len(accepted) // 2] if accepted else 0
    res.samples = [{"text": texts[k], "outcome": events[k]["outcome"], "term": events[k].get("term")},
                   {"text": texts[min(7, len(texts) - 1)], "outcome": events[min(7, len(texts) - 1)]["outcome"]}]
    bad = {}
    for eid, cl in fails.items():
        cl = [c for c in cl if c in clauses_of_interest or (c.startswith("wf_") or c.startswith("arity_")) and "wf" in clauses_of_interest]
        if cl:
            bad[eid] = cl
    patterns = sorted({classify(texts[eid - 1]) for eid in bad}, key=lambda p: (len(p), p))
    for eid, cl in sorted(bad.items()):
        text = texts[eid - 1]
        sig = "%s|%s|%s" % (prop, ",".join(cl), minimal_window(text, patterns))
        if re.search(r"(?<![\d.])\d{4301,}(?![\d.])", text) and not text.startswith(LIFTED):
            # (CPython's limit for int <-> text conversion: one root cause whatever surrounds the literal)
            sig = "%s|%s|integer literal longer than 4300 digits" % (prop, ",".join(cl))
        shown = text if len(text) <= 200 else "%s...(%d characters)...%s" % (text[:60], len(text), text[-40:])
        res.violations.append(Violation(sig, "parse(%r) -> %s fails %s" % (shown, events[eid - 1]["outcome"], cl), {"text": text}, cl))
    return res
