"""POBJ family: histories of parse / tokenize / clear_cache / client edits on one ExpressionParser,
validated step by step against HistoryFree (ParserObject.tla / TracePobj.tla). Serves C12 and C10."""
import itertools
import json
import random

from . import common, project, tlc
from .common import Result, Violation

TEXTS = ["4x + 2y^3", "sgn(x) = 2", "4 +", "(4x", "4 # 2", "1.2.3", "2 2", "", "x", "12", "1 2", "sg n(x)"]
TYPEBITS = {1 << k: k for k in range(15)}


def proj_result(kind, value):
    if kind == "raise":
        return {"kind": "raise", "exc": type(value).__name__}
    if kind == "tokens":
        try:
            return {"kind": "tokens", "t": [TYPEBITS.get(k.type, 99) for k in value], "v": [str(k.value) for k in value]}
        except Exception as e:  # noqa
            return {"kind": "tokens", "t": [99], "v": ["unprojectable:" + type(e).__name__]}
    try:
        return {"kind": "tree", "term": project.term(value)}
    except Exception as e:  # noqa
        return {"kind": "tree", "term": {"k": "unprojectable:" + type(e).__name__}}


NMODES = 3


def configure(parser, mode, in_place=False):
    """tokenizer configurations a client can set through the parser's public tokenizer: 1 default, 2 padding kept,
    3 two more functions registered (one with a name length no built-in has)"""
    from mathy_core.expressions import SgnExpression, AbsExpression
    tk = parser.tokenizer
    tk.exclude_padding = mode != 2
    table = {"sgn": SgnExpression}
    if mode == 3:
        table.update({"abs": AbsExpression, "absolute": AbsExpression})
    if in_place == "replace":
        # a whole new Tokenizer object put in place of the parser's (the attribute is public)
        from mathy_core.tokenizer import Tokenizer
        tk = parser.tokenizer = Tokenizer(exclude_padding=(mode != 2))
        tk.functions = table
        return
    if in_place:
        for k in list(tk.functions):
            if k not in table:
                del tk.functions[k]
        tk.functions.update(table)
    else:
        tk.functions = table


def fresh(text, mode=1):
    from mathy_core.parser import ExpressionParser

    def new():
        p = ExpressionParser()
        if mode != 1:
            configure(p, mode)
        return p
    try:
        fp = proj_result("tree", new().parse(text))
    except BaseException as e:  # noqa
        fp = proj_result("raise", e)
    try:
        ft = proj_result("tokens", new().tokenize(text))
    except BaseException as e:  # noqa
        ft = proj_result("raise", e)
    return fp, ft


def run_history(case):
    """case = {"texts": [...], "history": [[op, arg], ...]}; ops: P i / T i / C / E kind"""
    from mathy_core.parser import ExpressionParser
    from mathy_core.tokenizer import Token
    texts = case["texts"]
    vals = []
    index = {}

    def intern(v):
        key = json.dumps(v, sort_keys=True)
        if key not in index:
            vals.append(v)
            index[key] = len(vals)
        return index[key]
    tinfo = []
    uses_modes = any(op == "S" for op, _ in case["history"])
    for t in texts:
        ans = [fresh(t, m) for m in (range(1, NMODES + 1) if uses_modes else (1,))]
        tinfo.append({"fp": [intern(a[0]) for a in ans], "ft": [intern(a[1]) for a in ans]})
    parser = ExpressionParser()
    lists = project.ObjTable()
    handed = []
    steps = []
    for op, arg in case["history"]:
        if op == "P":
            try:
                r = proj_result("tree", parser.parse(texts[arg]))
            except BaseException as e:  # noqa
                r = proj_result("raise", e)
            steps.append({"op": "parse", "t": arg + 1, "res": intern(r), "lid": 0, "m": 0})
        elif op == "T":
            lid = 0
            try:
                lst = parser.tokenize(texts[arg])
                r = proj_result("tokens", lst)
                if isinstance(lst, list):
                    lid = lists.of(lst)
                    handed.append(lst)
            except BaseException as e:  # noqa
                r = proj_result("raise", e)
            steps.append({"op": "tokenize", "t": arg + 1, "res": intern(r), "lid": lid, "m": 0})
        elif op == "C":
            parser.clear_cache()
            steps.append({"op": "clear", "t": 0, "res": 0, "lid": 0, "m": 0})
        elif op == "E":
            if handed:
                lst = handed[-1 if arg != "first_pop" else 0]
                try:
                    if arg in ("pop", "first_pop") and lst:
                        lst.pop(0)
                    elif arg == "drain":
                        del lst[:]
                    elif arg == "append":
                        lst.append(Token("junk", 1 << 1))
                    elif arg == "replace" and lst:
                        lst[0] = Token("9", 1 << 0)
                    elif arg == "mutate" and lst:
                        # edit the Token objects found in the list (value / type are public attributes)
                        for tk in lst[:2]:
                            tk.value = "7"
                            tk.type = 1 << 0
                except Exception:  # noqa
                    pass
            steps.append({"op": "edit", "t": 0, "res": 0, "lid": 0, "m": 0})
        elif op == "D":
            # the same call made from deep inside the caller's own recursion: it may fail for lack of stack (not judged);
            # what matters is that the parser answers normally afterwards
            import sys

            def deep(n):
                if n > 0:
                    return deep(n - 1)
                return parser.parse(texts[arg])
            depth_now = len(__import__("inspect").stack(0))
            try:
                deep(max(0, sys.getrecursionlimit() - depth_now - 40))
            except BaseException:  # noqa
                pass
            steps.append({"op": "deepcall", "t": arg + 1, "res": 0, "lid": 0, "m": 0})
        elif op == "K":
            # a shallow copy of the parser (copy.copy) gets its own tokenizer with more functions and its own, cleared caches, and
            # is used; the original must go on answering as configured
            import copy
            try:
                twin = copy.copy(parser)
                configure(twin, 3, in_place="replace")
                twin.clear_cache()
                for tx in texts[:6]:
                    try:
                        twin.parse(tx)
                        twin.tokenize(tx)
                    except BaseException:  # noqa
                        pass
            except BaseException:  # noqa
                pass
            steps.append({"op": "twin", "t": 0, "res": 0, "lid": 0, "m": 0})
        elif op == "MC":
            # the parser's public cursor attributes after a call: the token it stopped at and what is left of its working list
            try:
                for tk in [getattr(parser, "current_token", None)] + list(getattr(parser, "tokens", None) or []) + list(getattr(parser, "_all_tokens", None) or []):
                    if tk is not None and hasattr(tk, "value"):
                        tk.value = "8"
                        tk.type = 1 << 0
            except BaseException:  # noqa
                pass
            steps.append({"op": "edit", "t": 0, "res": 0, "lid": 0, "m": 0})
        elif op in ("FP", "FT"):
            try:
                r = proj_result("tree", ExpressionParser().parse(texts[arg])) if op == "FP" else proj_result("tokens", ExpressionParser().tokenize(texts[arg]))
            except BaseException as e:  # noqa
                r = proj_result("raise", e)
            steps.append({"op": "fparse" if op == "FP" else "ftokenize", "t": arg + 1, "res": intern(r), "lid": 0, "m": 0})
        elif op == "S":
            configure(parser, arg, in_place=(True, False, "replace")[len(steps) % 3])
            steps.append({"op": "config", "t": 0, "res": 0, "lid": 0, "m": arg})
    return {"texts": tinfo, "steps": steps, "nvals": len(vals), "vals_sample": vals[:3]}


OPS_EDIT = ["pop", "drain", "append", "replace", "first_pop", "mutate"]


def alphabet(ntexts):
    ops = [["P", i] for i in range(ntexts)] + [["T", i] for i in range(ntexts)] + [["C", None]] + [["E", k] for k in OPS_EDIT]
    return ops


def domain(ctx, focus):
    rng = random.Random(ctx.seed * 31 + 5)
    cases = []
    if focus == "sticky":
        texts = ["4x + 2y^3", "4 +", "(4x", "4 # 2", "1.2.3", "2 2", "", "x"]
        ops = [["P", i] for i in range(len(texts))] + [["C", None]]
        L = 3 if ctx.quick else 4
    else:
        texts = ["4x + 2y^3", "sgn(x) = 2", "4 +", "4 # 2", "12", "1 2"]
        ops = alphabet(len(texts))
        L = 3 if ctx.quick else 4
    query = [["P", i] for i in range(len(texts))] + [["T", i] for i in range(len(texts))] + [["P", i] for i in range(len(texts))] + [["FP", i] for i in range(len(texts))]
    for n in range(0, L + 1):
        for h in itertools.product(ops, repeat=n):
            cases.append({"texts": texts, "history": list(h) + query})
    exhaustive = len(cases)
    allops = alphabet(len(TEXTS))
    for _ in range(300 if ctx.quick else 6000):
        n = rng.randint(L + 1, 14)
        h = [rng.choice(allops) for _ in range(n)]
        q = [["P", i] for i in rng.sample(range(len(TEXTS)), 4)] + [["T", i] for i in rng.sample(range(len(TEXTS)), 4)]
        cases.append({"texts": TEXTS, "history": h + q})
    # reconfiguration histories: the parser's public tokenizer is reconfigured (padding kept / more functions registered) between calls
    nconf = 0
    if True:
        ctexts = ["4x + 2y^3", "abs(x)", "absolute(x) + 1", "2abs(y) - sgn(x)", "4 +"]
        cops = [["P", i] for i in range(len(ctexts))] + [["T", i] for i in range(len(ctexts))] + [["C", None], ["S", 1], ["S", 2], ["S", 3]]
        cquery = [["P", i] for i in range(len(ctexts))] + [["T", i] for i in range(len(ctexts))] + [["FP", i] for i in range(len(ctexts))] + [["FT", i] for i in range(len(ctexts))]
        for n in range(1, 4 if focus != "sticky" else 3):
            for h in itertools.product(cops, repeat=n):
                if not any(o == "S" for o, _ in h):
                    continue
                if n == 3 and ctx.quick and rng.random() < 0.5:
                    continue
                cases.append({"texts": ctexts, "history": list(h) + cquery, "noquery": True})
                cases.append({"texts": ctexts, "history": list(h) + [["C", None]] + cquery, "noquery": True})
                nconf += 2
        for _ in range(200 if ctx.quick else 5000):
            h = [rng.choice(cops) for _ in range(rng.randint(4, 12))] + [["S", rng.randint(1, 3)]]
            cases.append({"texts": ctexts, "history": h + [["C", None]] + cquery, "noquery": True})
            nconf += 1
    # calls made from deep inside the caller's recursion (the parse runs out of stack), then the same texts at top level
    ndeep = 0
    dtexts = ["(" * 30 + "x + 1" + ")" * 30, "4x + 2y^3", "sgn(sgn(sgn(sgn(x))))", "2 * (3 + (4 - (5 / (6 + x))))", "4 +"]
    dq = [["P", i] for i in range(len(dtexts))] + [["T", i] for i in range(len(dtexts))] + [["FP", i] for i in range(len(dtexts))]
    for pre in ([], [["P", 1]], [["T", 0]], [["C", None]]):
        for i in range(len(dtexts)):
            cases.append({"texts": dtexts, "history": pre + [["D", i]] + dq, "noquery": True})
            cases.append({"texts": dtexts, "history": pre + [["D", i], ["D", i], ["C", None]] + dq, "noquery": True})
            ndeep += 2
    # stress histories: state that only builds up over many calls
    deep_fail = ["((((((((x", "(((1 +", "sgn(((x", "2 * (((((y + 1", "(x))", "4 +", "((((((((1.2.3", "((((((((.", "sgn(sgn(((1..2", "2 * (((((y + 1.2.3", "(((((((( #"]
    nstress = 0
    for ft in deep_fail:
        for n in ((40, 130) if not ctx.quick else (130,)):
            tx = [ft, "(x)", "sgn(x) + (y)", "((2))", "x", "(" * 40 + "x + 1" + ")" * 40]
            h = [["P", 0]] * n + [["P", i] for i in range(1, 6)] + [["T", i] for i in range(1, 6)] + [["FP", i] for i in range(1, 6)] + [["C", None]] + [["P", i] for i in range(1, 6)]
            cases.append({"texts": tx, "history": h})
            nstress += 1
    long_fail = [" * ".join(["y"] * 30) + " *", " + ".join(["2x"] * 60) + " +", "(" * 30 + "x", "x" * 60 + ")", " / ".join(["3"] * 26) + " / )"]
    for ft in long_fail:
        tx = [ft, "4x + 2y^3", "x", "(x)", "2 * 3"]
        for h in ([["P", 0]] + [["P", i] for i in range(1, 5)] + [["C", None]] + [["P", i] for i in range(1, 5)],
                  [["T", 0], ["P", 0], ["P", 0]] + [["P", i] for i in range(1, 5)] + [["T", i] for i in range(1, 5)]):
            cases.append({"texts": tx, "history": h, "noquery": True})
            nstress += 1
    # prefix-growing sessions: every prefix of a text, in order, on one parser (an editor re-parsing as the user types)
    for base in ("4x + 2y^3 - 7 * (x + sgn(x - 9)) / 12.5 = 3sgn(y) + 2sgnx", "12.5 + 3.75x^2 - sgn(12 - x) * 44sgn(x)", "2 * 3 + sgn(4) - 2sg + 2sgn(x) - 1.25.3"):
        tx = [base[:k] for k in range(1, len(base) + 1)]
        for ops in (["T"], ["P"], ["T", "P"]):
            h = [[o, k] for k in range(len(tx)) for o in ops]
            cases.append({"texts": tx, "history": h, "noquery": True})
            nstress += 1
    # cache-capacity probes: tokenize(s), N other distinct successful parses, then parse(s) / tokenize(s) again
    caps = [128, 256, 512, 1024, 2048] if ctx.quick else [16, 32, 64, 100, 128, 200, 256, 500, 512, 1000, 1024, 2048, 4096]
    for cap in caps:
        for n in (cap - 1, cap, cap + 1):
            tx = ["4x + 2y^3"] + ["x + %d" % k for k in range(n)]
            h = [["T", 0]] + [["P", k + 1] for k in range(n)] + [["P", 0], ["T", 0], ["P", 1], ["P", n]]
            cases.append({"texts": tx, "history": h, "noquery": True})
            h2 = [["P", 0]] + [["T", k + 1] for k in range(n)] + [["T", 0], ["P", 0], ["T", 1], ["P", n]]
            cases.append({"texts": tx, "history": h2, "noquery": True})
            # a failed parse first: its text is in the token cache but never reaches the parse cache
            tx3 = ["4 +"] + tx[1:]
            h3 = [["P", 0]] + [["P", k + 1] for k in range(n)] + [["P", 1], ["P", 0], ["T", 0], ["P", n]]
            cases.append({"texts": tx3, "history": h3, "noquery": True})
            nstress += 3
    rule = ("%d histories that first make the call from deep inside the caller's own recursion (out of stack), then ask at top level; " % ndeep) + ("%d reconfiguration histories (all of length <= 3 with at least one reconfiguration of the public tokenizer - padding kept, functions 'abs' and 'absolute' registered, in place, by replacing the table or by replacing the Tokenizer object - "
            "each with and without clear_cache before the queries, + random ones; every history ends with brand-new default parsers asked the same texts); " % nconf if nconf else "") + ("%d stress histories (130 repeated failing parses of deeply parenthesised texts; cache-capacity probes around 128..1024 distinct texts); " % nstress) + ("all %d histories of length <= %d over %d operations (parse / tokenize of %d texts incl. one failing text per exception class, "
            "clear_cache, %s) each followed by parse, tokenize and parse-again of every text; + seeded random histories up to length 14 over %d texts"
            % (exhaustive, L, len(ops), len(texts), "client edits of handed-out lists" if focus != "sticky" else "no edits", len(TEXTS)))
    return cases, rule


def run_family(ctx, cases, prop, focus="history"):
    res = Result()
    if cases is None:
        for cfg, expect in (("good" if ctx.quick else "good6", None), ("nocopy", "violated"), ("noreset", "violated"), ("keeptokens", "violated"), ("sharedtokens", "violated")):
            r = tlc.run("MC_ParserObject", "MC_ParserObject_%s.cfg" % cfg, ctx.work, workers=4 if ctx.quick else 12, timeout=2400, xmx="8g")
            res.add_tlc(r, "model " + cfg)
            if expect is None and not r.ok():
                raise tlc.TLCError("ParserObject model violates %s\n%s" % (r.violated, r.out[-1500:]))
            if expect and r.ok():
                raise tlc.TLCError("vacuity: ParserObject variant %s should violate HistoryFree/CacheIntact but does not" % cfg)
        res.extra["model_variants"] = "good: holds; CopyOnReturn=FALSE, ResetCursor=FALSE, ClearDropsTokens=FALSE and CopyTokens=FALSE each violate (non-vacuity)"
        cases, res.rule = domain(ctx, focus)
        res.exhaustive = True
    else:
        res.rule = "replay"
    from .common import Pool
    with Pool(16) as pool:
        traces = pool.map(run_history, [{"texts": c["texts"], "history": c["history"]} for c in cases], chunksize=100)
    events = [{"texts": t["texts"], "steps": t["steps"]} for t in traces]
    fails, st = tlc.validate_sharded("TracePobj", "TracePobj.cfg", events, ctx.work, shard_size=max(300, len(events) // 32 + 1), timeout=1800)
    res.states += st["distinct"]; res.transitions += st["generated"]
    res.traces += len(events)
    res.evaluations += sum(len(t["steps"]) for t in traces)
    res.distinct_nontrivial += len({json.dumps(c["history"]) for c in cases if len(c["history"]) > len(c["texts"])})
    res.rule += " | non-trivial = distinct histories with at least one call before the queries"
    res.samples = [{"history": cases[len(cases) // 3]["history"][:6], "steps": traces[len(cases) // 3]["steps"][:6], "values": traces[len(cases) // 3]["vals_sample"]}]
    res.extra["validator_pobj"] = st
    res.extra["reconfiguration_histories_answering_unlike_a_fresh_parser_with_that_configuration"] = sum(1 for cl in fails.values() if any(c.startswith("note_") for c in cl))
    for eid, cl in sorted(fails.items()):
        cl = [c for c in cl if not c.startswith("note_")]          # reconfiguration of the public tokenizer is outside the statements of C10 / C12: reported, never alarmed
        if not cl:
            continue
        c = cases[eid - 1]
        # signature: clause set + the operations (without text identities) of the shortest prefix involved
        kinds = "".join(op for op, _ in c["history"][: max(0, len(c["history"]) - 3 * len(c["texts"]))])[:6] if len(c["history"]) < 40 else "random"
        res.violations.append(Violation("%s|%s" % (prop, ",".join(cl)), "history %s then queries: %s" % (json.dumps(c["history"][:8]), cl),
                                        {"texts": c["texts"], "history": c["history"]}, cl))
    return res
