"""Projections: real mathy_core object graphs -> abstract state (DESIGN.md section 3).

Heaps are pointer-level snapshots over a *universe of node objects* numbered by an ObjTable
(stable across snapshots of one trace, so before/after heaps of an in-place mutation can be
compared, and dangling parents or aliased subtrees are visible).  Pointers are read from the
public attributes left / right / parent only - never through str() or evaluate().
"""
import math
from fractions import Fraction

from . import common  # noqa: F401  (puts /repo on sys.path)

from mathy_core.expressions import (  # noqa: E402
    AbsExpression, AddExpression, ConstantExpression, DivideExpression, EqualExpression,
    FactorialExpression, MultiplyExpression, NegateExpression, PowerExpression, SgnExpression,
    SubtractExpression, UnaryExpression, VariableExpression,
)

KIND = {
    ConstantExpression: "c", VariableExpression: "v", NegateExpression: "neg",
    FactorialExpression: "fact", SgnExpression: "sgn", AbsExpression: "abs",
    AddExpression: "add", SubtractExpression: "sub", MultiplyExpression: "mul",
    DivideExpression: "div", PowerExpression: "pow", EqualExpression: "eq",
}
CLASS_OF = {v: k for k, v in KIND.items()}


def int_digits(a):
    """decimal digits of a non-negative int without int -> str conversion of the whole number (CPython refuses beyond 4300 digits)"""
    if a < 10 ** 4000:
        return [int(c) for c in str(a)]
    chunks = []
    base = 10 ** 4000
    while a:
        a, r = divmod(a, base)
        chunks.append(r)
    out = [int(c) for c in str(chunks[-1])]
    for r in reversed(chunks[:-1]):
        out += [int(c) for c in str(r).rjust(4000, "0")]
    return out


def big_digits(v):
    """exact decimal digits of an int beyond TLC's range, or the shortest round-trip decimal of a float:
    {dg: digits (most significant first), sc: decimal scale, sg: sign} meaning sg * dg / 10^sc."""
    from decimal import Decimal
    try:
        import numpy as np
        if isinstance(v, np.generic):
            v = v.item()
    except Exception:  # pragma: no cover
        pass
    if isinstance(v, int):
        return {"dg": int_digits(abs(v)), "sc": 0, "sg": -1 if v < 0 else 1}
    t = Decimal(repr(float(v))).as_tuple()
    digits = list(t.digits)
    if t.exponent > 0:
        digits += [0] * t.exponent
        sc = 0
    else:
        sc = -t.exponent
    return {"dg": digits, "sc": sc, "sg": -1 if t.sign else 1}


NOBIG = {"dg": [0], "sc": 0, "sg": 1}


def kind_of(node):
    return KIND.get(type(node), "other")


def simplest_between(lo, hi):
    """Simplest rational in [lo, hi] (Stern-Brocot / continued fractions)."""
    if lo > hi:
        lo, hi = hi, lo
    if lo <= 0 <= hi:
        return Fraction(0)
    if hi < 0:
        return -simplest_between(-hi, -lo)
    fl = math.floor(lo)
    if fl == lo:
        return Fraction(fl)
    if fl + 1 <= hi:
        return Fraction(fl + 1)
    r = simplest_between(1 / (hi - fl), 1 / (lo - fl))
    return fl + 1 / r


MAXNUM = 2 ** 30


def const_ratio(v):
    """value of a constant -> (num, den, tag). den == 0 means 'no exact value': tag says why
    (nonfinite | inexact | big | weird).  Floats are recovered as the simplest rational within
    4 ulp when its denominator is <= 1000 and |r| <= 10^4 (DESIGN.md 3.3)."""
    try:
        import numpy as np
        if isinstance(v, np.generic):
            v = v.item()
    except Exception:  # pragma: no cover
        pass
    if isinstance(v, bool):
        v = int(v)
    if isinstance(v, int):
        if abs(v) >= MAXNUM:
            return 0, 0, "big"
        return v, 1, "int"
    if isinstance(v, float):
        if v != v or v in (float("inf"), float("-inf")):
            return 0, 0, "nonfinite"
        if v == 0:
            return 0, 1, "float"
        if v == int(v) and abs(v) < MAXNUM:
            return int(v), 1, "float"
        ulp = Fraction(math.ulp(v))
        f = Fraction(v)
        q = simplest_between(f - 4 * ulp, f + 4 * ulp)
        if q.denominator <= 1000 and abs(q) <= 10 ** 4:
            return q.numerator, q.denominator, "float"
        return 0, 0, "repr"
    if v is None:
        return 0, 0, "none"
    return 0, 0, "weird"


class ObjTable:
    """id(object) -> small stable integer; keeps references so ids are never recycled."""

    def __init__(self):
        self.ids = {}
        self.keep = []

    def of(self, o):
        if o is None:
            return 0
        k = id(o)
        if k not in self.ids:
            self.ids[k] = len(self.keep) + 1
            self.keep.append(o)
        return self.ids[k]

    def obj(self, i):
        return self.keep[i - 1]

    def __len__(self):
        return len(self.keep)


def _is_node(o):
    return hasattr(o, "left") and hasattr(o, "right") and hasattr(o, "parent")


def absorb(objs, roots):
    """Add to the table everything reachable from `roots` through left / right / parent."""
    stack = [r for r in roots if r is not None]
    while stack:
        n = stack.pop()
        if id(n) in objs.ids:
            continue
        objs.of(n)
        for c in (n.right, n.left, n.parent):  # left is popped first -> pre-order numbering
            if c is not None and _is_node(c) and id(c) not in objs.ids:
                stack.append(c)


def snapshot(objs, roots=(), payload=True):
    """Pointer-level snapshot of *every* object known to the table (after absorbing roots)."""
    absorb(objs, roots)
    # closure again over the older objects: a mutation may have linked them to new objects
    absorb(objs, [c for o in list(objs.keep) for c in (o.left, o.right, o.parent) if c is not None and _is_node(c)])
    n = len(objs)
    h = {"n": n, "l": [], "r": [], "p": []}
    if payload:
        h.update({"kind": [], "num": [], "den": [], "ex": [], "vid": [], "nid": [], "side": [], "big": []})
    for o in objs.keep:
        h["l"].append(objs.of(o.left) if o.left is None or _is_node(o.left) else 0)
        h["r"].append(objs.of(o.right) if o.right is None or _is_node(o.right) else 0)
        h["p"].append(objs.of(o.parent) if o.parent is None or _is_node(o.parent) else 0)
        if payload:
            k = kind_of(o)
            h["kind"].append(k)
            if k == "c":
                a, b, e = const_ratio(o.value)
            else:
                a, b, e = 0, 1, "-"
            h["num"].append(a)
            h["den"].append(b)
            h["ex"].append(e)
            h["big"].append(big_digits(o.value) if e in ("big", "repr") else NOBIG)
            h["vid"].append(var_code(o) if k == "v" else 0)
            h["nid"].append(str(getattr(o, "id", "")))
            h["side"].append(("L" if o.child_on_left else "R") if isinstance(o, UnaryExpression) else "-")
    return h


def var_code(o):
    """variables are projected as the code point of their (single-letter) identifier; 0 = none/odd"""
    ident = getattr(o, "identifier", None)
    if isinstance(ident, str) and len(ident) >= 1:
        c = ord(ident[0])
        return c if len(ident) == 1 else c + 1000 * len(ident)
    return 0


def term(node, depth=0):
    """Nested-term view (DESIGN.md 3.1) by kind dispatch on the class and left/right."""
    if depth > 5000:
        raise RecursionError("term too deep / cyclic")
    k = kind_of(node)
    if k == "c":
        a, b, e = const_ratio(node.value)
        if e in ("big", "repr"):
            d = {"k": "c", "n": 0, "d": 0}
            d.update(big_digits(node.value))
            d["xf"] = 1 if e == "repr" else 0          # 1: a float shown by its shortest decimal (inexact if computed), 0: an exact integer
            return d
        return {"k": "c", "n": a, "d": b}
    if k == "v":
        return {"k": "v", "id": var_code(node)}
    if k in ("neg", "fact", "sgn", "abs"):
        c = node.left if node.left is not None else node.right
        return {"k": k, "c": term(c, depth + 1)}
    if k == "other":
        return {"k": "other"}
    return {"k": k, "l": term(node.left, depth + 1), "r": term(node.right, depth + 1)}
