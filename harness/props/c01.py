"""C01 - REWRITE family (see harness/rwfam.py, spec/Rules.tla, spec/TraceRewrite.tla)."""
from .. import rwfam, rewrite, tlc, common


def run(ctx, cases=None):
    res = rwfam.run_family(ctx, cases, "C01")
    res.assumptions = ["equivalence = exact evaluation at 12 assignments (variables in -11..11) in F_46337 (first four also in F_46327), integer exponents in Z, sgn/abs uninterpreted",
                       "equations: complete solution sets over F_31, F_37, F_101 (one variable) or F_13^2, F_17^2 (two variables)",
                       "float constants are recovered as the simplest rational within 4 ulp (denominator <= 1000); steps creating other float constants are checked structurally only (counted in skipped)"]
    return res


def selftest(ctx):
    import copy
    evs = rewrite.events_for_text(("2x + 3x = 4", True))
    st = [e for e in evs if e["typ"] == "step"][0]
    good, _ = tlc.validate_sharded("TraceRewrite", "TraceRewrite.cfg", [copy.deepcopy(st)], ctx.work, env={"F_VALUE": "1", "F_SOL": "1", "F_RT": "1", "F_IMPL": "1"})
    clean = not [c for c in good.get(1, []) if not c.startswith(("branch:", "drift_", "note_"))]      # branch / drift / note clauses never alarm
    bad = copy.deepcopy(st)
    i = bad["res"] - 1
    kids = [k for k in range(bad["ha"]["n"]) if bad["ha"]["kind"][k] == "c" and k + 1 > bad["hb"]["n"] or bad["ha"]["kind"][k] == "c" and bad["ha"]["p"][k] != 0]
    k = [k for k in range(bad["ha"]["n"]) if bad["ha"]["kind"][k] == "c"][-1]
    bad["ha"]["num"][k] += 1
    rej, _ = tlc.validate_sharded("TraceRewrite", "TraceRewrite.cfg", [bad], ctx.work, env={"F_VALUE": "1", "F_SOL": "1", "F_RT": "1", "F_IMPL": "1"})
    print("C01 selftest: clean step accepted=%s; a corrupted constant of the result is rejected with %s" % (clean, rej.get(1)))
    return 0 if clean and rej.get(1) else 2
