"""C03 - text is read according to the documented grammar and order of operations (PARSE family)."""
from .. import parsefam, tlc


def run(ctx, cases=None):
    res = parsefam.run_family(ctx, cases, "C03", parsefam.C03_CLAUSES)
    res.assumptions = ["equivalence is decided by exact evaluation in two prime fields at 12 assignments (integer exponents in Z); sgn is an uninterpreted function",
                       "float literals are limited to <= 15 significant digits so that float(text) is the literal's own decimal value"]
    return res


def selftest(ctx):
    ev = parsefam.make_event("2x^2 - y / 3")
    good, _ = tlc.validate_sharded("TraceParse", "TraceParse.cfg", [dict(ev)], ctx.work)
    import copy
    bad = copy.deepcopy(ev)
    bad["term"]["l"], bad["term"]["r"] = bad["term"]["r"], bad["term"]["l"]
    rej, _ = tlc.validate_sharded("TraceParse", "TraceParse.cfg", [bad], ctx.work)
    print("C03 selftest: clean accepted=%s; swapped operands of '-' rejected with %s" % (good == {}, rej.get(1)))
    return 0 if good == {} and "value" in rej.get(1, []) else 2
