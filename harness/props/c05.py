"""C05 - evaluation computes the mathematically correct number.

(D) trees over operands of every magnitude (0, +-1, small, 2^31, 2^32+1, 2^62, 2^63-1, 2^63, 2^64+7, 10^20, decimals), as
    literals and as variable bindings, through + - * / ^ ! neg abs sgn =, with contexts that leave variables absent / None /
    zero, are built through the public constructors and evaluated by the real MathExpression.evaluate.
(V) TLC (TraceEval / EvalBig / BigInt) computes the exact value independently - arbitrary-precision limb arithmetic for
    integer-pure trees, exact small rationals with NaN for trees through division or decimals - and the error contract,
    and validates each observed result.
"""
import itertools
import math
import random
from fractions import Fraction

from .. import common, tlc, project, build
from ..common import Result, Violation

BIG = [-(2 ** 63), 2 ** 31, 2 ** 32 + 1, 2 ** 62, 2 ** 63 - 1, 2 ** 63, 2 ** 64 + 7, 10 ** 20, -(2 ** 62), -(2 ** 63) - 1]
SMALL = [0, 1, -1, 2, 3, 7, 10, -3]
DEC = [0.5, 2.5, -0.25]
EXPS = [0, 1, 2, 3, 5, 31, 41, 63, 64, 70, -1, -2]
FACTS = [0, 1, 5, 20, 21, 25]


def recover(f, maxden=30000):
    """simplest rational within 4 ulp of a float, if its denominator is small"""
    if f == 0:
        return [0, 1]
    ulp = Fraction(math.ulp(f))
    q = project.simplest_between(Fraction(f) - 4 * ulp, Fraction(f) + 4 * ulp)
    if q.denominator <= maxden and abs(q.numerator) <= maxden:
        return [q.numerator, q.denominator]
    return [0, 0]


def limbs(v):
    v = int(v)
    s = 0 if v == 0 else (1 if v > 0 else -1)
    a = abs(v)
    m = []
    while a:
        m.append(a % 10000)
        a //= 10000
    return {"s": s, "m": m}


def enc_value(v):
    try:
        import numpy as np
        if isinstance(v, np.generic):
            v = v.item()
    except Exception:  # noqa
        pass
    if isinstance(v, bool):
        v = int(v)
    if isinstance(v, int):
        return {"ty": "int", "b": limbs(v), "q": [0, 0], "lg": v.bit_length()}
    fn, fd = float(v).as_integer_ratio() if float(v) == float(v) and abs(float(v)) != float("inf") else (0, 1)
    out = {"ty": "float", "b": limbs(0), "q": recover(float(v)), "fn": limbs(fn), "fd": limbs(fd)}
    if float(v) == float(v) and abs(float(v)) != float("inf"):
        out["lg"] = math.frexp(float(v))[1]          # |v| in [2^(lg-1), 2^lg): the exponent view of the specification (EvalBig.ExtVal)
    return out


def enc_term(t):
    k = t[0]
    if k == "pc":
        e = enc_value(t[1] / 100)
        e["k"] = "c"
        return e
    if k == "c":
        e = enc_value(t[1])
        e["k"] = "c"
        return e
    if k == "v":
        return {"k": "v", "id": ord(t[1][0])}
    if k in ("neg", "fact", "sgn", "abs"):
        return {"k": k, "c": enc_term(t[1])}
    return {"k": k, "l": enc_term(t[1]), "r": enc_term(t[2])}


def enc_ctx(ctx, names):
    out = []
    for nme in names:
        if nme not in ctx:
            continue
        v = ctx[nme]
        if v is None:
            out.append({"id": ord(nme), "st": "none", "ty": "int", "b": limbs(0), "q": [0, 0]})
        else:
            e = enc_value(v)
            e.update({"id": ord(nme), "st": "bound"})
            out.append(e)
    return out


def edited_term(term, edit):
    """the abstract term after the in-place edit"""
    kind, path, val = edit

    def go(t, p):
        if not p:
            if kind == "const":
                return ("c", val)
            if kind == "unary":
                return (t[0], ("c", val))            # the operand of a one-operand node replaced by a new constant
            return (t[0], t[1], ("c", val))          # relink: replace the right operand by a new constant
        i = p[0] + 1
        return tuple(go(x, p[1:]) if j == i else x for j, x in enumerate(t))
    return go(term, path)


def apply_edit(tree, edit):
    from mathy_core.expressions import ConstantExpression
    kind, path, val = edit
    n = tree
    for step in path:
        n = n.left if step == 0 else n.right
    if kind == "const":
        n.value = val
    elif kind == "unary":
        n.set_child(ConstantExpression(val))
    else:
        n.set_right(ConstantExpression(val))


def unhex(x):
    """integers too long for CPython's decimal text conversion travel through cases as hex strings"""
    if isinstance(x, str) and (x.startswith("0x") or x.startswith("-0x")):
        return int(x, 16)
    if isinstance(x, (list, tuple)):
        return tuple(unhex(y) for y in x)
    if isinstance(x, dict):
        return {k: unhex(v) for k, v in x.items()}
    return x


def observe(case):
    term, ctx = unhex(case["term"]), unhex(case["ctx"])
    tree = build.build(term)
    if case.get("edit"):
        try:
            import warnings
            with warnings.catch_warnings():
                warnings.simplefilter("ignore")
                tree.evaluate(dict(ctx) if ctx is not None else None)
        except BaseException:  # noqa
            pass
        apply_edit(tree, case["edit"])
    try:
        import warnings
        import collections
        import types
        # the assignment is handed over as a dict or one of its standard subclasses - an OrderedDict, a defaultdict (which would insert a
        # key on a careless look-up); whatever it is, evaluate must leave it as it was
        flavour = common.pick(repr(case.get("term"))[:200], 6) if ctx else 0
        given = None if ctx is None else dict(ctx)
        if ctx is not None:
            given = (given, dict(ctx), collections.OrderedDict(ctx), dict(ctx),
                     collections.defaultdict(lambda: None, ctx), collections.defaultdict(int, ctx))[flavour]
        if ctx and common.pick(repr(case.get("term"))[:200], 7) == 0:
            # first an evaluation that fails part-way (a context whose look-up raises), then the real one on the same tree
            class Failing(dict):
                def get(self, key, default=None):
                    raise RuntimeError("look-up failed")

                def __getitem__(self, key):
                    raise RuntimeError("look-up failed")
            try:
                tree.evaluate(Failing(ctx))
            except BaseException:  # noqa
                pass
        if given is not None and flavour == 0 and common.pick(repr(case.get("term"))[:200], 3) == 0:
            import numpy as np
            given = {k_: (np.float64(v_) if isinstance(v_, float) else v_) for k_, v_ in given.items()}
        with warnings.catch_warnings():
            warnings.simplefilter("ignore")
            r = tree.evaluate(given)
        if given is not None and dict(given) != dict(ctx):
            return {"t": "mutated", "cls": "evaluate changed the assignment it was given"}
    except RecursionError:
        return {"t": "exc", "cls": "RecursionError"}
    except BaseException as e:  # noqa
        return {"t": "exc", "cls": type(e).__name__}
    try:
        import numpy as np
        if isinstance(r, np.generic):
            r = r.item()
    except Exception:  # noqa
        pass
    none_whole = {"ok": False, "b": limbs(0)}
    if isinstance(r, bool):
        r = int(r)
    if isinstance(r, int):
        if r.bit_length() > 200000:
            return {"t": "int", "b": limbs(0), "q": [0, 0], "whole": none_whole, "neg": r < 0, "huge": True}
        return {"t": "int", "b": limbs(r), "q": [0, 0], "whole": none_whole, "neg": r < 0, "huge": False}
    if isinstance(r, float):
        if r != r:
            return {"t": "nan"}
        if r in (float("inf"), float("-inf")):
            return {"t": "inf", "neg": r < 0}
        q = recover(r)
        whole = {"ok": True, "b": limbs(int(r))} if r == int(r) else none_whole
        fn, fd = r.as_integer_ratio()
        return {"t": "float", "b": limbs(0), "q": q, "whole": whole, "fn": limbs(fn), "fd": limbs(fd), "neg": math.copysign(1.0, r) < 0}
    return {"t": "exc", "cls": "returned:" + type(r).__name__}


def make_event(case):
    names = sorted({n for n in "xyz"})
    term = edited_term(case["term"], case["edit"]) if case.get("edit") else case["term"]
    return {"term": enc_term(unhex(term)), "ctx": enc_ctx(unhex(case["ctx"]) or {}, names), "obs": observe(case)}


def C(v): return ("c", v)
def V(n): return ("v", n)


def domain(ctx):
    rng = random.Random(ctx.seed * 19 + 1)
    cases = []
    ints = SMALL + BIG
    ops = ["add", "sub", "mul"]
    # integer-pure binary and ternary trees, literals
    for a, b in itertools.product(ints, repeat=2):
        for o in ops:
            cases.append({"term": (o, C(a), C(b)), "ctx": {}})
    trip = list(itertools.product(ints, repeat=3))
    for a, b, c in rng.sample(trip, 600 if ctx.quick else len(trip)):
        o1, o2 = rng.choice(ops), rng.choice(ops)
        cases.append({"term": (o1, (o2, C(a), C(b)), C(c)), "ctx": {}})
        cases.append({"term": (o1, C(a), (o2, C(b), C(c))), "ctx": {}})
    # the same through variable bindings
    for a, b in itertools.product(ints, repeat=2):
        o = rng.choice(ops)
        cases.append({"term": (o, V("x"), V("y")), "ctx": {"x": a, "y": b}})
        cases.append({"term": (o, V("x"), (rng.choice(ops), V("y"), V("x"))), "ctx": {"x": a, "y": b}})
    # powers
    for a in SMALL + [2 ** 31, 2 ** 32 + 1, 10 ** 20, -7]:
        for e in (EXPS if abs(a) < 2 ** 31 else [0, 1, 2, 3, 5, -1]):
            cases.append({"term": ("pow", C(a), C(e)), "ctx": {}})
            cases.append({"term": ("pow", V("x"), C(e)), "ctx": {"x": a}})
            cases.append({"term": ("pow", V("x"), V("y")), "ctx": {"x": a, "y": e}})
            cases.append({"term": ("add", ("pow", C(a), C(e)), C(1)), "ctx": {}})
            cases.append({"term": ("mul", C(3), ("pow", V("x"), C(e))), "ctx": {"x": a}})
    # bases 0 and +-1 with exponents of any size (the parity of a huge odd exponent is lost in a double): exact all the same
    for base in (-1, 0, 1):
        for e in (2 ** 22 + 1, 2 ** 53 + 1, 2 ** 60 + 1, 10 ** 30 + 7, 10 ** 30 + 8, 2 ** 64):
            cases.append({"term": ("pow", C(base), C(e)), "ctx": {}})
            cases.append({"term": ("pow", V("x"), V("y")), "ctx": {"x": base, "y": e}})
            cases.append({"term": ("add", ("pow", V("x"), C(e)), C(2 ** 62)), "ctx": {"x": base}})
    for v in [2 ** 20, 2 ** 31, 2 ** 40, 3 ** 20]:
        cases.append({"term": ("pow", V("x"), C(2)), "ctx": {"x": v}})
        cases.append({"term": ("mul", V("x"), V("x")), "ctx": {"x": v}})
        cases.append({"term": ("mul", ("mul", V("x"), V("x")), V("x")), "ctx": {"x": v}})
    # factorials
    for n in FACTS:
        cases.append({"term": ("fact", C(n)), "ctx": {}})
        cases.append({"term": ("add", ("fact", C(n)), C(2 ** 62)), "ctx": {}})
        cases.append({"term": ("mul", ("fact", C(n)), ("fact", C(5))), "ctx": {}})
        cases.append({"term": ("sub", C(1), ("fact", C(n))), "ctx": {}})
    # neg / abs / sgn
    for a in ints + DEC:
        for u in ("neg", "abs", "sgn"):
            cases.append({"term": (u, C(a)), "ctx": {}})
            cases.append({"term": (u, ("sub", V("x"), C(1))), "ctx": {"x": a}})
    # division and decimals: small exact rationals, NaN on division by zero (and its propagation)
    smalls = [0, 1, -1, 2, 3, 7, 10, 0.5, 2.5, -0.25, 4, -3]
    for a, b in itertools.product(smalls, repeat=2):
        cases.append({"term": ("div", C(a), C(b)), "ctx": {}})
        cases.append({"term": ("div", V("x"), V("y")), "ctx": {"x": a, "y": b}})
        for o in ("add", "sub", "mul", "div"):
            c = rng.choice(smalls)
            cases.append({"term": (o, ("div", C(a), C(b)), C(c)), "ctx": {}})
            cases.append({"term": (o, C(c), ("div", V("x"), ("sub", V("y"), V("y")))), "ctx": {"x": a, "y": b}})
            cases.append({"term": (o, ("sub", V("x"), V("x")), ("div", C(1), ("sub", V("y"), V("y")))), "ctx": {"x": a, "y": b}})
        cases.append({"term": ("mul", C(a), C(b)), "ctx": {}})
        cases.append({"term": ("add", ("mul", C(a), C(0.5)), C(b)), "ctx": {}})
        cases.append({"term": ("pow", C(a), C(-1)), "ctx": {}})
        cases.append({"term": ("pow", C(0.5), C(abs(int(b)) if b == int(b) else 2)), "ctx": {}})
    # division whose operands come out of ^ or abs (numpy-typed intermediates must still give NaN on a zero divisor)
    for x in (0.0, 1.5, -2.5, 0, 2):
        for y in (0.0, 3, 0):
            cases.append({"term": ("div", C(1), ("pow", V("x"), C(2))), "ctx": {"x": x}})
            cases.append({"term": ("div", ("pow", V("x"), C(2)), C(0)), "ctx": {"x": x}})
            cases.append({"term": ("div", C(3), ("abs", V("x"))), "ctx": {"x": x}})
            cases.append({"term": ("div", ("abs", V("x")), ("sub", V("y"), V("y"))), "ctx": {"x": x, "y": y}})
            cases.append({"term": ("div", ("pow", V("x"), C(2)), ("mul", V("y"), C(0))), "ctx": {"x": x, "y": y}})
            cases.append({"term": ("add", ("div", ("neg", ("pow", V("x"), C(3))), ("pow", V("y"), C(2))), C(1)), "ctx": {"x": x, "y": y}})
    # zeros that carry a sign (0.0 * negative = -0.0) and infinities under abs / powers: the sign of the result is part of the IEEE result
    for x in (0.0, 0, 2.0, -2.0, 1e-200):
        for y in (-3.0, 3.0, -1e-200, 0.0, -0.5):
            z = ("mul", V("x"), V("y"))
            cx = {"x": x, "y": y}
            cases.append({"term": ("abs", z), "ctx": cx})
            for e in (-1, -2, 2, 0.5, -0.5, 0):
                cases.append({"term": ("pow", ("abs", z), C(e)), "ctx": cx})
            cases.append({"term": ("add", ("abs", z), ("abs", V("x"))), "ctx": cx})
            cases.append({"term": ("mul", ("abs", z), C(2.5)), "ctx": cx})
            cases.append({"term": ("div", ("abs", z), C(4)), "ctx": cx})
            cases.append({"term": ("abs", ("neg", ("abs", z))), "ctx": cx})
            cases.append({"term": ("abs", ("div", z, C(7))), "ctx": cx})
            cases.append({"term": ("abs", ("sub", V("x"), V("x"))), "ctx": cx})
            cases.append({"term": ("pow", ("abs", ("neg", V("x"))), C(-1)), "ctx": cx})
            cases.append({"term": ("abs", ("pow", C(10.0), C(400))), "ctx": {}})
    # IEEE special values out of float arithmetic (EvalBig.ExtVal): products, quotients and sums that overflow give the signed
    # infinity, inf - inf / inf * 0 / inf / inf / anything / 0 give NaN, finite / inf gives a zero, and what stays well inside the
    # range stays finite - as literals and as bindings, with integer and float partners
    huge = [1e308, -1e308, 1.5e308, 1e200, -1e200, 1e154, 1.5e154]
    part = [10.0, -10.0, 1e200, -1e150, 0.5, 2, -3, 0.0, 0, 1e-200]
    for a in huge:
        for b in part:
            cx = {"x": a, "y": b}
            p = ("mul", V("x"), V("y"))
            cases.append({"term": p, "ctx": cx})
            cases.append({"term": ("mul", C(a), C(b)), "ctx": {}})
            cases.append({"term": ("div", V("x"), V("y")), "ctx": cx})
            cases.append({"term": ("div", V("y"), p), "ctx": cx})
            cases.append({"term": ("sub", p, p), "ctx": cx})
            cases.append({"term": ("add", p, ("neg", p)), "ctx": cx})
            cases.append({"term": ("add", p, p), "ctx": cx})
            cases.append({"term": ("div", p, p), "ctx": cx})
            cases.append({"term": ("mul", ("mul", p, V("x")), C(0.0)), "ctx": cx})
            cases.append({"term": ("mul", C(0), ("mul", p, V("x"))), "ctx": cx})
            cases.append({"term": ("div", ("mul", p, V("x")), ("sub", V("y"), V("y"))), "ctx": cx})
            cases.append({"term": ("div", C(1.0), ("mul", p, V("x"))), "ctx": cx})
            cases.append({"term": ("div", C(3), ("div", C(1.0), ("mul", ("mul", V("x"), V("x")), V("x")))), "ctx": cx})
            cases.append({"term": ("neg", ("mul", ("abs", p), C(1e200))), "ctx": cx})
            cases.append({"term": ("abs", ("neg", ("mul", p, C(1e160)))), "ctx": cx})
            cases.append({"term": ("add", ("abs", p), ("abs", V("x"))), "ctx": cx})
            cases.append({"term": ("sub", ("abs", p), ("neg", ("abs", V("x")))), "ctx": cx})
            cases.append({"term": ("mul", ("div", V("x"), C(1e-200)), V("y")), "ctx": cx})
            cases.append({"term": ("add", ("mul", V("x"), V("x")), V("y")), "ctx": cx})
            cases.append({"term": ("sub", V("y"), ("mul", V("x"), V("x"))), "ctx": cx})
    # integers beyond the range of a double and beyond CPython's 4300-digit text limit: as literals, as bindings of variables that
    # are used, and as bindings of variables the expression never mentions
    for hv_ in (10 ** 400, -(7 ** 500), 10 ** 5000 + 1):
        hv = hex(hv_)
        nhv = hex(-hv_)
        cases.append({"term": ("add", V("x"), C(1)), "ctx": {"x": hv}})
        cases.append({"term": ("add", V("y"), C(1)), "ctx": {"x": hv, "y": 3}})
        cases.append({"term": ("mul", V("y"), ("sub", V("x"), V("x"))), "ctx": {"x": hv, "y": 2}})
        if abs(hv_) > 10 ** 4000:
            continue          # (products of 1250-limb numbers are too slow for the interpreted big-integer arithmetic of the specification)
        cases.append({"term": ("sub", ("mul", V("x"), C(2)), V("x")), "ctx": {"x": hv}})
        cases.append({"term": ("eq", V("x"), ("add", V("x"), C(0))), "ctx": {"x": hv}})
        cases.append({"term": ("eq", V("x"), ("add", V("x"), C(1))), "ctx": {"x": hv}})
        cases.append({"term": ("add", C(hv), C(nhv)), "ctx": {}})
        cases.append({"term": ("abs", ("neg", V("x"))), "ctx": {"x": hv}})
        cases.append({"term": ("pow", V("x"), C(2)), "ctx": {"x": hv}})
        cases.append({"term": ("div", V("y"), C(4)), "ctx": {"x": hv, "y": 2}})
    # factorials of hundreds of thousands (a second of work, millions of bits): still an exact integer - judged by type and by the
    # identity n! - n * (n-1)! = 0
    for n in (233016, 233017, 240000):
        cases.append({"term": ("fact", C(n)), "ctx": {}})
        cases.append({"term": ("sub", ("fact", C(n)), ("mul", C(n), ("fact", C(n - 1)))), "ctx": {}})
    # factorials feeding arithmetic beyond 64 bits
    for n in (15, 18, 20):
        cases.append({"term": ("mul", ("fact", C(n)), V("x")), "ctx": {"x": 20}})
        cases.append({"term": ("mul", ("fact", C(n)), ("fact", C(n))), "ctx": {}})
        cases.append({"term": ("add", ("add", ("fact", C(n)), ("fact", C(n))), ("add", ("fact", C(20)), ("fact", C(20)))), "ctx": {}})
        cases.append({"term": ("sub", ("neg", ("fact", C(n))), ("mul", ("fact", C(20)), C(7))), "ctx": {}})
    # missing / None / zero bindings, also behind a zero factor or in an untaken-looking position
    shapes = [lambda: ("add", V("x"), V("y")), lambda: ("mul", ("sub", V("x"), V("x")), V("y")), lambda: ("mul", V("y"), ("sub", V("x"), V("x"))),
              lambda: ("mul", C(0), V("y")), lambda: ("pow", V("y"), C(0)), lambda: ("pow", C(1), V("y")), lambda: ("sub", V("y"), V("y")),
              lambda: ("div", C(0), V("y")), lambda: ("eq", V("x"), V("y")), lambda: ("neg", V("y")), lambda: ("sgn", V("y")), lambda: V("y"),
              lambda: ("add", ("mul", C(0), V("z")), V("x"))]
    ctxs = [{"x": 3}, {"x": 3, "y": None}, {"x": 0}, {}, None, {"x": 3, "y": 0}, {"x": 3, "y": 2, "z": None}, {"y": 0, "z": 0}, {"x": 0, "y": 0, "z": 0}]
    for f in shapes:
        for c in ctxs:
            cases.append({"term": f(), "ctx": c})
    # equations
    for a, b in itertools.product(SMALL + [2 ** 64 + 7, 10 ** 20], repeat=2):
        cases.append({"term": ("eq", C(a), C(b)), "ctx": {}})
        cases.append({"term": ("eq", ("add", V("x"), C(1)), ("add", C(1), V("y"))), "ctx": {"x": a, "y": b}})
        cases.append({"term": ("eq", ("eq", C(a), V("x")), C(b)), "ctx": {"x": a}})
    # non-integer sides that are close but not equal (relative differences 1e-12 .. 1e-9): unequal all the same
    for l, r, cx in [(("div", V("x"), C(4)), V("y"), {"x": 1, "y": 0.2500000001}), (("mul", C(1.5), V("x")), V("y"), {"x": 2 * 10 ** 12, "y": 3 * 10 ** 12 + 1}),
                     (("div", V("x"), C(3)), V("y"), {"x": 1.0, "y": 0.33333333334}), (("add", V("x"), C(0.5)), V("y"), {"x": 1000000.0, "y": 1000000.5000001}),
                     (("mul", V("x"), V("x")), V("y"), {"x": 1.5, "y": 2.2500000000001}), (("sub", V("x"), C(0.25)), ("div", V("y"), C(2)), {"x": 1.0, "y": 1.5000000002}),
                     (V("x"), ("add", V("y"), C(0.000000001)), {"x": 7.0, "y": 7.0}), (("div", V("x"), C(4)), V("y"), {"x": 1, "y": 0.25}),
                     (("mul", C(0.1), V("x")), V("y"), {"x": 3, "y": 0.30000000000000004})]:
        cases.append({"term": ("eq", l, r), "ctx": cx})
        cases.append({"term": ("eq", r, l), "ctx": cx})
        cases.append({"term": ("eq", ("eq", l, r), r), "ctx": cx})
    # sides that differ by one unit at large magnitude must still be reported as unequal
    for a in (2 ** 31, 10 ** 9, 5 * 10 ** 11, 2 ** 53, 2 ** 62, 2 ** 64 + 7, 10 ** 20):
        for d in (1, -1, 2):
            cases.append({"term": ("eq", C(a), C(a + d)), "ctx": {}})
            cases.append({"term": ("eq", ("add", ("mul", C(2), V("x")), C(d)), V("y")), "ctx": {"x": a, "y": 2 * a}})
            cases.append({"term": ("eq", V("x"), ("add", V("y"), C(d))), "ctx": {"x": a, "y": a}})
            cases.append({"term": ("eq", ("mul", V("x"), V("x")), ("add", ("mul", V("y"), V("y")), C(d))), "ctx": {"x": a, "y": a}})
    # evaluate, edit the tree in place (a constant's value / a re-linked operand), evaluate again: the second result
    # is judged against the edited tree
    edits = []
    for a, b, c in [(2, 3, 4), (2 ** 62, 2 ** 62, 5), (7, 0, 1), (10 ** 20, 1, 2)]:
        for o1, o2 in (("add", "mul"), ("mul", "add"), ("sub", "mul"), ("mul", "pow")):
            if o2 == "pow" and (abs(b) > 100 or abs(c) > 70):
                continue
            edits.append({"term": (o1, (o2, C(a), C(b)), V("x")), "ctx": {"x": c}, "edit": ["const", [0, 1], b + 2]})
            edits.append({"term": (o1, (o2, C(a), C(b)), V("x")), "ctx": {"x": c}, "edit": ["const", [0, 0], a + 1]})
            edits.append({"term": (o1, V("x"), (o2, (o1, C(a), C(b)), C(c))), "ctx": {"x": c}, "edit": ["const", [1, 0, 1], b + 5]})
            edits.append({"term": (o1, (o2, C(a), C(b)), V("x")), "ctx": {"x": c}, "edit": ["relink", [0], c]})
            # the same without any variable, evaluated without an assignment (None / empty): nothing may be remembered across the edit
            for cx in ({}, None):
                edits.append({"term": (o1, (o2, C(a), C(b)), C(c)), "ctx": cx, "edit": ["const", [0, 1], b + 2]})
                edits.append({"term": (o1, (o2, (o1, C(a), C(b)), C(c)), C(7)), "ctx": cx, "edit": ["const", [0, 0, 1], b + 5]})
                edits.append({"term": (o1, C(3), (o2, (o1, C(a), C(b)), C(c))), "ctx": cx, "edit": ["relink", [1, 0], c + 1]})
                edits.append({"term": (o1, (o2, C(a), C(b)), (o2, C(c), C(2))), "ctx": cx, "edit": ["relink", [0], c]})
    # the operand of a one-operand node (given to its constructor) replaced in place after a first evaluation
    for u in ("neg", "abs", "fact", "sgn"):
        for a, b in [(3, 5), (4, 0), (2, 20)]:
            if u in ("neg", "abs", "sgn"):
                a, b = -a, -b - 1
            edits.append({"term": ("add", (u, C(a)), V("x")), "ctx": {"x": 7}, "edit": ["unary", [0], b]})
            edits.append({"term": (u, C(a)), "ctx": {}, "edit": ["unary", [], b]})
            edits.append({"term": ("mul", C(2), ("sub", (u, C(a)), C(1))), "ctx": None, "edit": ["unary", [1, 0], b]})
    cases += edits
    rule = ("integer trees over %d operands incl. 2^31..10^20 as literals and bindings through + - * (all pairs, sampled triples in both groupings); powers base x exponent over %s; "
            "factorials of %s; neg/abs/sgn; division and decimals over %d small operands incl. zero divisors and NaN propagation (also behind a zero factor); "
            "13 shapes x 9 contexts with absent / None / zero bindings; equations equal / unequal / nested / differing by one unit at magnitudes up to 10^20; "
            "integers of 401 / 423 / 5001 digits as literals and as bindings of used and of unused variables; evaluate - edit in place - evaluate again sequences" % (len(ints), EXPS, FACTS, len(smalls)))
    return cases, rule


def sig(case, cl):
    case = {"term": unhex(case["term"]), "ctx": unhex(case["ctx"])}

    def shape(t):
        k = t[0]
        if k == "pc":
            return "userliteral"
        if k == "c":
            v = t[1]
            if isinstance(v, float):
                return "dec"
            return "0" if v == 0 else ("big" if abs(v) >= 2 ** 31 else ("n" if v > 0 else "-n"))
        if k == "v":
            return t[1]
        if k in ("neg", "fact", "sgn", "abs"):
            return "%s(%s)" % (k, shape(t[1]))
        return "%s(%s,%s)" % (k, shape(t[1]), shape(t[2]))
    c = case["ctx"]
    cs = "noctx" if c is None else ",".join("%s=%s" % (n, "None" if v is None else ("dec" if isinstance(v, float) else "0" if v == 0 else "big" if abs(v) >= 2 ** 31 else "n")) for n, v in sorted(c.items()))
    return "C05|%s|%s|%s%s" % (",".join(cl), shape(case["term"]), cs, "|after-edit" if case.get("edit") else "")


def run(ctx, cases=None):
    res = Result()
    if cases is None:
        cases, res.rule = domain(ctx)
    else:
        cases = [dict(c, term=tuplify(c["term"])) for c in cases]
        res.rule = "replay"
    from ..common import Pool
    with Pool(16) as pool:
        events = pool.map(make_event, cases, chunksize=100)
    fails, st = tlc.validate_sharded("TraceEval", "TraceEval.cfg", events, ctx.work, shard_size=max(300, len(events) // 32 + 1))
    res.states += st["distinct"]; res.transitions += st["generated"]
    res.traces = len(events)
    res.evaluations = len(events)
    notes = {}
    for cl in fails.values():
        for c in cl:
            if c.startswith("note_"):
                notes[c] = notes.get(c, 0) + 1
    res.distinct_nontrivial = len({repr((c["term"], c["ctx"], c.get("edit"))) for c in cases}) - notes.get("note_not_judged", 0)
    res.rule += " | non-trivial = distinct (tree, context) cases that the specification judges (not skipped as inexact)"
    res.extra.update({"validator": st, "not_judged_or_noted": notes, "observed_kinds": {k: sum(1 for e in events if e["obs"]["t"] == k) for k in ("int", "float", "nan", "inf", "exc")}})
    res.samples = [{"term": cases[k]["term"], "ctx": cases[k]["ctx"], "observed": events[k]["obs"]} for k in (len(cases) // 7, len(cases) // 2)]
    res.assumptions = ["float results are judged only when the exact value is a rational with numerator and denominator below 32768: recovered within 4 ulp, or within 2^-44 of the computation's magnitude (forward error bound, so cancellation cannot raise a false alarm); transcendental powers are not judged",
                       "an integer-valued float result of an integer-pure tree is accepted when exactly equal (noted)"]
    for eid, cl in sorted(fails.items()):
        cl = [c for c in cl if not c.startswith("note_")]
        if not cl:
            continue
        c = cases[eid - 1]
        res.violations.append(Violation(sig(c, cl), "evaluate(%s, %s) -> %s: %s" % (c["term"], c["ctx"], events[eid - 1]["obs"].get("cls", events[eid - 1]["obs"]["t"]), cl), c, cl))
    return res


def tuplify(t):
    return tuple(tuplify(x) if isinstance(x, list) else x for x in t)


def selftest(ctx):
    import copy
    ev = make_event({"term": ("add", ("pow", C(2), C(64)), C(7)), "ctx": {}})
    good, _ = tlc.validate_sharded("TraceEval", "TraceEval.cfg", [copy.deepcopy(ev)], ctx.work)
    bad = copy.deepcopy(ev); bad["obs"]["b"] = limbs(7)
    rej, _ = tlc.validate_sharded("TraceEval", "TraceEval.cfg", [bad], ctx.work)
    print("C05 selftest: 2^64 + 7 accepted=%s; a wrapped result (7) rejected with %s" % (good == {}, rej.get(1)))
    return 0 if good == {} and rej.get(1) else 2
