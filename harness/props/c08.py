"""C08 - each rule performs its documented transformation on its documented forms.

(G) TLC instantiates every schema of Schemas.tla (documented forms x coefficients, variables, exponents x surrounding
    contexts, positive and negative) and writes the instances out.
(D) each instance is built through the public constructors; the real can_apply_to is asked at the schema's node and,
    when it accepts, the rule is applied to a clone from the root; the result is projected.
(V) TLC (TraceSchema) validates: accepted / refused as documented, the rule did something, and the result has the
    documented shape - exactly, or up to the order and grouping of the operands of + and * (bag-normal forms), or as a
    product of (p' + q') and k u^n with k p' = p, k q' = q - and checks that each documented result means the same as its input.
"""
import json
import os

from .. import common, tlc, project, rewrite
from ..common import Result, Violation


class Name(str):
    """a variable name that is equal to the plain one-letter string but is not the same object (as a name read from a file,
    taken from a numpy array or built at run time would be)"""


_NAMES = [0]


def build_json(t):
    from mathy_core import expressions as E
    k = t["k"]
    if k == "c":
        n, d = t["n"], t["d"]
        return E.ConstantExpression(n if d == 1 else n / d)
    if k == "v":
        _NAMES[0] += 1
        return E.VariableExpression(Name(chr(t["id"])) if _NAMES[0] % 2 else chr(t["id"]))
    if k in ("neg", "fact", "sgn", "abs"):
        cls = {"neg": E.NegateExpression, "fact": E.FactorialExpression, "sgn": E.SgnExpression, "abs": E.AbsExpression}[k]
        return cls(build_json(t["c"]))
    cls = {"add": E.AddExpression, "sub": E.SubtractExpression, "mul": E.MultiplyExpression, "div": E.DivideExpression,
           "pow": E.PowerExpression, "eq": E.EqualExpression}[k]
    return cls(build_json(t["l"]), build_json(t["r"]))


def navigate(root, path):
    n = root
    for step in path:
        if n.left is not None and n.right is not None:
            n = n.left if step == "L" else n.right
        else:
            n = n.left if n.left is not None else n.right
    return n


_RULES = {}


def float_exponents(tree):
    """whole exponents of every second power become floats of the same value (x^2 next to x^2.0: equal numbers of different type)"""
    from mathy_core import expressions as E
    k = 0
    for n in rewrite.inorder(tree):
        if isinstance(n, E.PowerExpression) and isinstance(n.right, E.ConstantExpression) and isinstance(n.right.value, int):
            k += 1
            if k % 2 == 0:
                n.right.value = float(n.right.value)
    return k >= 2


_COUNT = [0]


def replay(c, variant=""):
    # two sets of rule objects per worker process (options given by keyword / positionally), reused across thousands of instances
    if not _RULES:
        _RULES.update({(n, o, 0): r for n, o, r in rewrite.rules(pos=False)})
        _RULES.update({(n, o, 1): r for n, o, r in rewrite.rules(pos=True)})
    key = json.dumps(c["inp"], sort_keys=True) + str(c["path"])
    if common.pick(key, 60) == 0:
        common.process_noise(common.pick(key, 997))
    flavour = common.pick(key, 2)
    rule = _RULES[(c["rule"], c["opt"], flavour)]
    tree = build_json(c["inp"])
    if variant == "floatexp" and not float_exponents(tree):
        return None
    node = navigate(tree, c["path"])
    ev = {"c": c, "applicable": False, "outcome": "ok", "res": {"k": "c", "n": 0, "d": 1}}
    try:
        ev["applicable"] = bool(rule.can_apply_to(node))
    except BaseException as e:  # noqa
        ev["outcome"] = "can_apply:" + type(e).__name__
        return ev
    if ev["applicable"] and c["expect"] == "apply":
        try:
            work = node.clone_from_root()
            res = rule.apply_to(work).result.get_root()
            ev["res"] = project.term(res)
            ev["printed"] = str(res)
        except BaseException as e:  # noqa
            ev["outcome"] = type(e).__name__
    return ev


def replay_reached_in_place(c):
    """the instance reached by an in-place edit of a tree the rule object was asked about just before: the operands of the node
    (or of one of its operands) are exchanged, the long-lived rule object is asked about the node, the operands are put back - the
    very same node objects now form the schema instance - and the rule object is asked and applied, in place, without a clone or
    another question in between. Whatever the rule object remembers about the node it saw last is stale by then."""
    if not _RULES:
        replay(c)
    key = json.dumps(c["inp"], sort_keys=True) + str(c["path"])
    rule = _RULES[(c["rule"], c["opt"], common.pick(key, 2))]
    out = []
    for which in ("left", "right", "self"):
        tree = build_json(c["inp"])
        node = navigate(tree, c["path"])
        cand = node if which == "self" else getattr(node, which, None)
        if cand is None or cand.left is None or cand.right is None:
            continue
        cand.left, cand.right = cand.right, cand.left               # the pre-image
        try:
            rule.can_apply_to(node)
        except BaseException:  # noqa
            pass
        cand.left, cand.right = cand.right, cand.left               # back: the schema instance, same objects
        ev = {"c": c, "applicable": False, "outcome": "ok", "res": {"k": "c", "n": 0, "d": 1}, "env": "reached by an in-place edit (%s operands exchanged and put back)" % which}
        try:
            ev["applicable"] = bool(rule.can_apply_to(node))
        except BaseException as e:  # noqa
            ev["outcome"] = "can_apply:" + type(e).__name__
            out.append(ev)
            continue
        if ev["applicable"] and c["expect"] == "apply":
            try:
                res = rule.apply_to(node).result.get_root()
                ev["res"] = project.term(res)
                ev["printed"] = str(res)
            except BaseException as e:  # noqa
                ev["outcome"] = type(e).__name__
        out.append(ev)
    return out


def _var_ids(t):
    if t["k"] == "v":
        return {t["id"]}
    out = set()
    for f in ("l", "r", "c"):
        if isinstance(t.get(f), dict):
            out |= _var_ids(t[f])
    return out


def _rename(t, old, new):
    if t["k"] == "v":
        return dict(t, id=new) if t["id"] == old else t
    return {k: (_rename(v, old, new) if isinstance(v, dict) else v) for k, v in t.items()}


def replay_envs(c):
    """the instance as asked in a default process, and - for instances at the top of the tree - asked again in a process whose numpy
    error state is strict (np.seterr(all="raise"), common in numeric applications): acceptance may not depend on it"""
    ev = replay(c)
    out = [ev]
    if c["expect"] != "apply" and not c["hole"]:
        # an instance that must be refused because its two variables differ: still refused when they differ by CASE only (x, X)
        ids = sorted(_var_ids(c["inp"]))
        if len(ids) == 2 and all(97 <= i <= 122 for i in ids):
            c4 = dict(c, inp=_rename(c["inp"], ids[1], ids[0] - 32))
            ev4 = replay(c4)
            if ev4 is not None and (ev4["applicable"], ev4["outcome"]) != (ev["applicable"], ev["outcome"]):
                ev4["env"] = "same letter in the other case"
                out.append(ev4)
    for ev5 in replay_reached_in_place(c):
        if (ev5["applicable"], ev5["outcome"], ev5["res"]) != (ev["applicable"], ev["outcome"], ev["res"]):
            out.append(ev5)
    if c["expect"] == "apply" and not c["hole"]:
        ev3 = replay(c, "floatexp")
        if ev3 is not None and (ev3["applicable"], ev3["outcome"]) != (ev["applicable"], ev["outcome"]):
            ev3["env"] = "float-exponent"
            out.append(ev3)
    return out


def run(ctx, cases=None):
    res = Result()
    if cases is None:
        path = os.path.join(ctx.work, "cases.ndjson")
        r = tlc.run("MC_Schemas", "MC_Schemas.cfg", ctx.work, env={"CASES_FILE": path}, workers=1, timeout=900)
        res.add_tlc(r, "schema instantiation")
        cases = [json.loads(l) for l in open(path)]
        total = len(cases)
        if ctx.quick:
            # the two bulk families are thinned deterministically in the quick tier; everything else is complete
            keep = []
            for k, c in enumerate(cases):
                if c["sid"] in ("factor.simple", "varmul.simple", "comm.add", "fold.simple") and (k + ctx.seed) % 4 != 0:
                    continue
                keep.append(c)
            cases = keep
        res.rule = "%d of the %d schema instances instantiated by TLC from Schemas.tla (49 schemas over 9 rules / 11 rule instances: documented forms x coefficients in {absent,2,-3,1/2,12} x variables x exponents in {absent,2,3,-1,1/2} x up to 13 surrounding contexts; positive and negative)" % (len(cases), total)
        res.exhaustive = not ctx.quick
    else:
        res.rule = "replay"
    from ..common import Pool
    with Pool(16) as pool:
        events = [e for l in pool.map(replay_envs, cases, chunksize=100) for e in l]
    send = [{k: v for k, v in e.items() if k not in ("printed", "env")} for e in events]
    fails, st = tlc.validate_sharded("TraceSchema", "TraceSchema.cfg", send, ctx.work, shard_size=max(200, len(send) // 48 + 1), timeout=2400)
    res.states += st["distinct"]; res.transitions += st["generated"]
    res.traces = len(events)
    res.evaluations = len(events)
    res.distinct_nontrivial = len({json.dumps(c, sort_keys=True) for c in cases})
    res.rule += " | non-trivial = distinct instances"
    by = {}
    for c in cases:
        by[c["sid"]] = by.get(c["sid"], 0) + 1
    drift = sum(1 for cl in fails.values() if "drift_grouping" in cl)
    res.extra.update({"validator": st, "instances_by_schema": by, "drift_grouping_differs_from_documented_tree": drift})
    k = len(events) // 3
    res.samples = [{"schema": events[k]["c"]["sid"], "input": events[k]["c"]["inp"], "path": events[k]["c"]["path"], "expect": events[k]["c"]["expect"],
                    "applicable": events[k]["applicable"], "result": events[k].get("printed")}]
    for eid, cl in sorted(fails.items()):
        cl = [c for c in cl if not c.startswith("drift_")]
        if not cl:
            continue
        e = events[eid - 1]
        c = e["c"]
        ctxname = "top" if not c["hole"] else "ctx"
        res.violations.append(Violation("C08|%s|%s|%s" % (",".join(cl), c["sid"], c["opt"]),
                                        "schema %s%s on %s at %s -> applicable=%s %s %r: %s" % (c["sid"], (" [%s]" % e["env"]) if e.get("env") else "", str(build_json(c["inp"])), c["path"], e["applicable"], e["outcome"], e.get("printed"), cl), c, cl))
    return res


def selftest(ctx):
    import copy
    c = {"sid": "dist.left", "rule": "dist", "opt": "", "inp": {"k": "mul", "l": {"k": "c", "n": 2, "d": 1}, "r": {"k": "add", "l": {"k": "v", "id": 120}, "r": {"k": "c", "n": 4, "d": 1}}},
         "path": [], "hole": [], "expect": "apply", "mode": "ac", "fp": {"p": [0, 1], "q": [0, 1], "u": 0, "e": [0, 0], "keep": []},
         "want": [{"k": "add", "l": {"k": "mul", "l": {"k": "c", "n": 2, "d": 1}, "r": {"k": "v", "id": 120}}, "r": {"k": "mul", "l": {"k": "c", "n": 2, "d": 1}, "r": {"k": "c", "n": 4, "d": 1}}}]}
    ev = replay(c)
    ev.pop("printed", None)
    good, _ = tlc.validate_sharded("TraceSchema", "TraceSchema.cfg", [copy.deepcopy(ev)], ctx.work)
    bad = copy.deepcopy(ev); bad["res"] = bad["c"]["inp"]
    rej, _ = tlc.validate_sharded("TraceSchema", "TraceSchema.cfg", [bad], ctx.work)
    print("C08 selftest: 2 * (x + 4) distributed accepted=%s; an unchanged result rejected with %s" % (good == {}, rej.get(1)))
    return 0 if good == {} and rej.get(1) else 2
