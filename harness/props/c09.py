"""C09 - any sequence of rewrites keeps the expression equivalent to the original.

(D) sessions on the real code with ONE persistent set of rule objects: every two-step script from the seed
    expressions (all applicable (rule, node) pairs, twice) and seeded random walks of up to 30 steps; each step is
    applied to node.clone_from_root() of the current root; after every step the whole object universe of the
    session is re-snapshotted and compared with the previous snapshot.
(V) TLC (TraceWalk / Session.tla) follows each trace with the session state (start, cur, exact) and judges every
    step: continuity, well-formedness, prints and re-parses, same value / solution set as the START, same
    variables, no earlier state altered, no raise after a positive applicability answer.
"""
import random
from .. import common, tlc, walks
from ..common import Result, Violation


def domain(ctx):
    rng = random.Random(ctx.seed * 17 + 11)
    seeds = walks.SEEDS
    jobs = []
    from multiprocessing import Pool
    with Pool(16) as pool:
        for l in pool.map(walks.two_step_scripts, seeds):
            jobs += l
    if ctx.quick and len(jobs) > 7000:
        jobs = rng.sample(jobs, 7000)
    n2 = len(jobs)
    nw = 160 if ctx.quick else 4000
    for i in range(nw):
        jobs.append((rng.choice(seeds), ("random", ctx.seed * 100003 + i, 12 if ctx.quick else 30)))
    return jobs, "%d two-step scripts (every applicable (rule, node) then every applicable (rule, node)) from %d seed expressions/equations; %d seeded random walks of up to %d steps; one persistent set of rule objects per session" % (
        n2, len(seeds), nw, 12 if ctx.quick else 30)


def run(ctx, cases=None):
    res = Result()
    if cases is None:
        jobs, res.rule = domain(ctx)
    else:
        jobs = [(c["text"], [tuple(x) for x in c["script"]]) for c in cases]
        res.rule = "replay"
    from multiprocessing import Pool
    with Pool(16) as pool:
        traces = [t for t in pool.map(walks.walk, jobs, chunksize=20) if t is not None and t["steps"]]
    events = [{"start": t["start"], "steps": t["steps"]} for t in traces]
    fails, st = tlc.validate_sharded("TraceWalk", "TraceWalk.cfg", events, ctx.work, shard_size=max(50, len(events) // 48 + 1), timeout=2400)
    res.states += st["distinct"]; res.transitions += st["generated"]
    res.traces = len(events)
    res.evaluations = sum(len(t["steps"]) for t in traces)
    res.distinct_nontrivial = len({(t["text"], str(t["script"])) for t in traces if len(t["steps"]) >= 2})
    res.rule += " | evaluations = session steps; non-trivial = distinct sessions with >= 2 steps"
    t = max(traces, key=lambda t: len(t["steps"]))
    res.samples = [{"text": t["text"], "script(rule index,node)": t["script"][:10], "printed": [s["printed"] for s in t["steps"][:10]]}]
    res.extra["validator"] = st
    res.extra["longest_session"] = len(t["steps"])
    for eid, cl in sorted(fails.items()):
        t = traces[eid - 1]
        cl = [c for c in cl if not c.startswith("harness_")] or cl
        # first failing step decides the signature: the rule applied there and the one before it
        bad_rules = "%s" % ">".join(s["rule"] + (":" + s["opt"] if s["opt"] else "") for s in t["steps"][-2:])
        res.violations.append(Violation("C09|%s|%s" % (",".join(cl), bad_rules),
                                        "session from %r, script %s -> %s: %s" % (t["text"], t["script"][:6], [s["printed"] for s in t["steps"]][-2:], cl),
                                        {"text": t["text"], "script": t["script"]}, cl))
    return res


def selftest(ctx):
    import copy
    t = walks.walk(("2x + 3x", [(4, 3), (3, 1)]))
    ev = {"start": t["start"], "steps": t["steps"]}
    good, _ = tlc.validate_sharded("TraceWalk", "TraceWalk.cfg", [copy.deepcopy(ev)], ctx.work)
    bad = copy.deepcopy(ev); bad["steps"][-1]["changed"] = [[1, "l", "2", "3"]]
    rej, _ = tlc.validate_sharded("TraceWalk", "TraceWalk.cfg", [bad], ctx.work)
    print("C09 selftest: %d-step session accepted=%s; injected alteration of an earlier state rejected with %s" % (len(t["steps"]), good == {}, rej.get(1)))
    return 0 if good == {} and rej.get(1) else 2
