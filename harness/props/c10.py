"""C10 - parsing is total, has a closed error contract and keeps no sticky state.

Two event families decide it:
 PARSE  fresh-parser parse(text) over valid / invalid / truncated / soup / long-chain / deeply nested texts:
        terminates, the exception class is in the documented set, returned trees are well formed (TraceParse);
 POBJ   histories of failing and succeeding calls on ONE parser: every later result equals the fresh one
        (ParserObject.tla, shared with C12).
"""
from .. import parsefam, tlc, pobj


def run(ctx, cases=None):
    pcases = None if cases is None else [c for c in cases if "text" in c]
    hcases = None if cases is None else [c for c in cases if "history" in c]
    res = parsefam.run_family(ctx, pcases, "C10", parsefam.C10_CLAUSES | {"wf"}) if (cases is None or pcases) else None
    if cases is None or hcases:
        r2 = pobj.run_family(ctx, hcases, "C10", focus="sticky")
        if res is None:
            res = r2
        else:
            res.violations += r2.violations
            res.states += r2.states; res.transitions += r2.transitions; res.traces += r2.traces
            res.evaluations += r2.evaluations; res.distinct_nontrivial += r2.distinct_nontrivial
            res.rule += " || " + r2.rule
            res.samples += r2.samples[:1]
            res.extra["pobj"] = r2.extra
            res.tlc_cmds += r2.tlc_cmds
    res.assumptions = ["bounded nesting is read as: parenthesis depth <= 40 and flat chains <= 300 operands; deeper inputs are not explored",
                       "the documented exception set is {InvalidExpression, OutOfTokens, InvalidSyntax, UnexpectedBehavior, TrailingTokens} plus ValueError"]
    return res


def selftest(ctx):
    ev = parsefam.make_event("2 +")
    good, _ = tlc.validate_sharded("TraceParse", "TraceParse.cfg", [dict(ev)], ctx.work)
    bad = dict(ev); bad["outcome"] = "IndexError"
    rej, _ = tlc.validate_sharded("TraceParse", "TraceParse.cfg", [bad], ctx.work)
    print("C10 selftest: clean accepted=%s; IndexError rejected with %s" % (good == {}, rej.get(1)))
    return 0 if good == {} and "error_contract" in rej.get(1, []) else 2
