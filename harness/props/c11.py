"""C11 - tokenizing is lossless, total and faithful to character classes.

(G) TLC explores the Tokenizer state machine over all strings up to the bound and checks the
    C11 invariants on the model (MC_Tokenizer).
(D) the real Tokenizer from /repo is run on every string of the same domain, both padding modes,
    two function tables; each call is recorded as an NDJSON event.
(V) TLC validates every recorded event against the specification (TraceTok): the observed token
    list must be the one the state machine produces, and each relational clause of C11 is
    evaluated on the observation itself.
"""
import itertools
import random

from .. import common, tlc
from ..common import Result, Violation

ALPHA26 = [48, 55, 46, 97, 115, 103, 110, 90, 43, 45, 8211, 42, 47, 94, 33, 61, 40, 41, 91, 93, 32, 9, 10, 35, 95, 1635]
CLASSES10 = [52, 46, 120, 115, 43, 8211, 91, 32, 13, 36]  # one representative per character class (+ '$' unsupported)
SGN = [115, 103, 110]
ABS = [97, 98, 115]
TYPEBITS = {1 << k: k for k in range(15)}


def observe(buf_codes, funcs, keep_padding):
    from mathy_core.tokenizer import Tokenizer
    from mathy_core.expressions import SgnExpression, AbsExpression

    t = Tokenizer(exclude_padding=not keep_padding) if len(buf_codes) % 2 else Tokenizer(not keep_padding)      # keyword / positional in turn
    none_vals = False
    t.functions = {"".join(map(chr, f)): (SgnExpression if f == SGN else (None if none_vals else AbsExpression)) for f in funcs}
    text = "".join(map(chr, buf_codes))
    try:
        toks = t.tokenize(text)
    except BaseException as e:  # noqa
        return {"ok": False, "exc": type(e).__name__, "t": [], "v": []}
    out = {"ok": True, "exc": "", "t": [TYPEBITS.get(k.type, 14) for k in toks],
           "v": [[ord(c) for c in str(k.value)] for k in toks]}
    return out


ABSOLUTE = [ord(c) for c in "absolute"]
_REUSED = {}


def observe_reused(buf_codes, funcs, keep_padding, n):
    """the same question put to ONE long-lived Tokenizer per process whose public settings (exclude_padding, functions) are changed
    between calls - by replacing the table or by editing it in place"""
    from mathy_core.tokenizer import Tokenizer
    from mathy_core.expressions import SgnExpression, AbsExpression
    t = _REUSED.get("t")
    if t is None or _REUSED["n"] > 5000:
        t = _REUSED["t"] = Tokenizer()
        _REUSED["n"] = 0
        # used once with the settings it was constructed with, BEFORE any reconfiguration: whatever it derives from its settings on
        # first use (a longest-name bound, a compiled pattern) must not outlive the settings
        try:
            t.tokenize("ab + sgn(1.5)")
        except BaseException:  # noqa
            pass
    _REUSED["n"] += 1
    t.exclude_padding = not keep_padding
    table = {"".join(map(chr, f)): (SgnExpression if f == SGN else AbsExpression) for f in funcs}
    if n % 2:
        t.functions = table
    else:
        for k in list(t.functions):
            if k not in table:
                del t.functions[k]
        t.functions.update(table)
    text = "".join(map(chr, buf_codes))
    try:
        toks = t.tokenize(text)
    except BaseException as e:  # noqa
        return {"ok": False, "exc": type(e).__name__, "t": [], "v": []}
    return {"ok": True, "exc": "", "t": [TYPEBITS.get(k.type, 14) for k in toks],
            "v": [[ord(c) for c in str(k.value)] for k in toks]}


_COUNT = [0]


def make_event(case):
    buf, funcs = case["buf"], case["funcs"]
    key = "%s|%s" % (buf, funcs)
    if common.pick(key, 3000) == 0:
        common.process_noise(common.pick(key, 997))
    ev = {"buf": buf, "funcs": funcs, "keep": observe(buf, funcs, True), "drop": observe(buf, funcs, False)}
    # a reused, reconfigured tokenizer must answer exactly like a new one; where it does not, ITS answer is the observation
    rk = observe_reused(buf, funcs, True, common.pick(key, 2))
    rd = observe_reused(buf, funcs, False, common.pick(key, 4) // 2)
    if rk != ev["keep"] or rd != ev["drop"]:
        # they disagree, so one of them is wrong: both observations are validated
        return [ev, {"buf": buf, "funcs": funcs, "keep": rk, "drop": rd, "reused": True}]
    return [ev]


def domain(ctx):
    cases = []
    maxlen = 3 if ctx.quick else 4
    for n in range(0, maxlen + 1):
        for s in itertools.product(ALPHA26, repeat=n):
            for funcs in ([SGN], [SGN, ABS]):
                cases.append({"buf": list(s), "funcs": funcs})
    rule = "all strings of length <= %d over 26 representative code points x 2 function tables" % maxlen
    # words that matter for the function rule, in every context
    words = ["sgn", "abs", "sgnx", "xsgn", "sg", "gn", "sgn(", "absgn", "sgnabs", "SGN", "Sgn", "absolute", "absolut", "absolutes", "f"]
    for w in words:
        for pre in ["", "2", " ", "(", "x", "."]:
            for post in ["", "2", " ", ")", "x", "."]:
                for funcs in ([SGN], [SGN, ABS], [SGN, ABSOLUTE], [SGN, [102]], [[102], ABS, ABSOLUTE]):
                    cases.append({"buf": [ord(c) for c in pre + w + post], "funcs": funcs})
    # strings that look like other numeric notations, and code points that case-fold / normalise to ASCII letters or digits
    import unicodedata
    looks = ["4x\r\ny", "7 +\r\n2x", "2\r\n3x", "x\r\n+ 1", "\r\nx", "x\r\n", "2\r\n\r\n3", "4\rx", "4\n\rx", "\r", "\r\r\n", " \r\n ", "sgn\r\n(x)", "3e-5x", "1e5", "2E3", "1e+5", "1.5e-3", ".5e2", "5.e1", "1e", "e5", "3e-x", "3e -5", "0x1F", "0b101", "0o17", "1_000", "1j", "2i", "inf", "nan", "NaN",
             "Infinity", "-inf", "1,5", "1'000", "½", "²", "x²", "１２", "٣", "४2", "2\u00a0+\u00a03", "2\u2009x", "x\u200b", "\ufeff2", "2\u2212x", "2\u00d73", "6\u00f72",
             "2\u22c5x", "\u212a", "\u0130", "\u017f", "\u00b5", "\u2126", "\u00e5", "s\u0323gn", "sgn\u0301", "\u0073gn(x)", "s\u200dgn"]
    for w in looks:
        for funcs in ([SGN], [SGN, ABS]):
            cases.append({"buf": [ord(c) for c in w], "funcs": funcs})
    special = []
    for cp in range(0x80, 0x10000 if not ctx.quick else 0x3000):
        ch = chr(cp)
        if 0xD800 <= cp <= 0xDFFF:
            continue
        try:
            forms = {ch.lower(), ch.upper(), ch.casefold(), unicodedata.normalize("NFKC", ch), unicodedata.normalize("NFKD", ch)}
        except Exception:  # noqa
            forms = set()
        asciiish = any(f and all(ord(x) < 128 for x in f) and any(x.isalnum() or x in "+-*/^!=()[]. " for x in f) for f in forms)
        if asciiish or ch.isdigit() or ch.isspace() or ch.isnumeric() or not ctx.quick and ch.isalpha() and cp < 0x600:
            special.append(cp)
    # every ASCII control character (form feed, vertical tab, the separators 28..31, NUL, DEL): only tab, line feed, carriage return are blanks
    special = [c for c in range(0, 32) if c not in (9, 10, 13)] + [127] + special
    for cp in special + [0x1D7D8, 0x1D465, 0x1F600, 0xFF0B, 0xFF0D, 0x2795]:
        cases.append({"buf": [cp], "funcs": [SGN]})
        cases.append({"buf": [50, cp, 120], "funcs": [SGN]})
        if cp < 128:
            cases.append({"buf": [50, 32, cp, 32, 120], "funcs": [SGN]})
            cases.append({"buf": [cp, cp], "funcs": [SGN, ABS]})
    # long maximal runs (a scanner with a bounded look-ahead window must not cut them)
    for n in [15, 16, 17, 31, 32, 33, 34, 63, 64, 65, 66, 127, 128, 129, 257]:
        for ch in ("7", "1.", "x", "sgn", " ", " \t", "+", "("):
            run = (ch * n)[:n]
            for pre, post in (("", ""), ("x+", "*y"), ("2 ", " 3")):
                cases.append({"buf": [ord(c) for c in pre + run + post], "funcs": [SGN]})
    if not ctx.quick:
        for n in range(5, 7):
            for s in itertools.product(CLASSES10, repeat=n):
                cases.append({"buf": list(s), "funcs": [SGN]})
        rule += "; all strings of length 5..6 over one representative per character class"
    rng = random.Random(ctx.seed)
    full = list(range(32, 127)) + [8211, 9, 10, 13, 0xE9, 0x663, 0x3A9, 0x2212, 0xFF11]
    for _ in range(2000 if ctx.quick else 50000):
        n = rng.randint(1, 24)
        cases.append({"buf": [rng.choice(full if rng.random() < 0.3 else ALPHA26[:-3]) for _ in range(n)],
                      "funcs": rng.choice([[SGN], [SGN, ABS]])})
    rule += "; %d strings in other numeric notations; %d code points that case-fold or normalise to ASCII, alone and between a digit and a letter" % (len(looks), len(special))
    rule += "; every question also put to one long-lived Tokenizer per process whose exclude_padding / functions are changed between calls (table replaced or edited in place)"
    rule += "; maximal runs of 15..257 digits / letters / blanks / operators; function-name words in 36 contexts; seeded random strings up to length 24 (printable ASCII + some non-ASCII)"
    return cases, rule


def signature(ev, clauses):
    # the smallest structure the failing decision depends on: clause + class pattern of the text
    def cls(c):
        if 48 <= c <= 57: return "d"
        if c == 46: return "."
        if 65 <= c <= 90 or 97 <= c <= 122: return "a"
        if c in (32, 9, 10, 13): return "_"
        if c in (43, 45, 8211, 42, 47, 94, 33, 61, 40, 41, 91, 93): return chr(c) if c < 128 else "–"
        return "?"
    return "C11|%s|%s" % (",".join(clauses), "".join(cls(c) for c in ev["buf"])[:12])


def run(ctx, cases=None):
    res = Result()
    if cases is None:
        model = tlc.run("MC_Tokenizer", "MC_Tokenizer_quick.cfg" if ctx.quick else "MC_Tokenizer_thorough.cfg",
                        ctx.work, workers=16, timeout=1500, xmx="8g")
        res.add_tlc(model, "model")
        if not model.ok():
            raise tlc.TLCError("the Tokenizer specification violates its own invariant %s\n%s" % (model.violated, model.out[-2000:]))
        res.extra["model_states"] = model.distinct
        cases, res.rule = domain(ctx)
        res.exhaustive = True
    else:
        res.rule = "replay"
    from ..common import Pool
    with Pool(16) as pool:
        events = [e for l in pool.map(make_event, cases, chunksize=2000) for e in l]
    res.extra["reused_tokenizer_disagreements"] = sum(1 for e in events if e.get("reused"))
    fails, st = tlc.validate_sharded("TraceTok", "TraceTok.cfg", [{k: v for k, v in e.items() if k != "reused"} for e in events], ctx.work, shard_size=max(1500, len(events) // 32 + 1))
    res.states += st["distinct"]
    res.transitions += st["generated"]
    res.traces = len(events)
    res.evaluations = len(events) * 2
    distinct = {(tuple(e["buf"]), len(e["funcs"])) for e in events if len(e["buf"]) >= 2}
    res.distinct_nontrivial = len(distinct)
    res.rule += " | non-trivial = distinct (text, function table) with at least two characters"
    res.samples = [{"text": "".join(map(chr, e["buf"])), "keep": e["keep"], "drop_ok": e["drop"]["ok"]} for e in events[4000:4003] + events[-2:]]
    res.extra["validator"] = st
    res.assumptions = ["characters are compared as code points; the representative alphabet stands for its character classes",
                       "characters are judged by class; every ASCII control character other than tab / line feed / carriage return is in the 'unsupported' class (must be refused)"]
    for eid, clauses in sorted(fails.items()):
        ev = events[eid - 1]
        text = "".join(map(chr, ev["buf"]))
        res.violations.append(Violation(signature(ev, clauses), "tokenize(%r)%s fails %s" % (text, " on a reused, reconfigured Tokenizer" if ev.get("reused") else "", clauses),
                                        {"buf": ev["buf"], "funcs": ev["funcs"]}, clauses))
    return res


def selftest(ctx):
    """Binding demonstration: corrupt one recorded field and show the trace is rejected."""
    ev = make_event({"buf": [ord(c) for c in "2x + sgn(3)"], "funcs": [SGN]})[0]
    good, _ = tlc.validate_sharded("TraceTok", "TraceTok.cfg", [dict(ev)], ctx.work)
    bad = dict(ev)
    bad["keep"] = dict(ev["keep"]); bad["keep"]["t"] = list(ev["keep"]["t"]); bad["keep"]["t"][0] = 1
    rej, _ = tlc.validate_sharded("TraceTok", "TraceTok.cfg", [bad], ctx.work)
    ok = (good == {}) and (1 in rej and "tokens_keep" in rej[1])
    print("C11 selftest: clean trace accepted=%s, corrupted trace rejected with %s" % (good == {}, rej.get(1)))
    return 0 if ok else 2
