"""C12 - parser results do not depend on call history (POBJ family)."""
from .. import pobj, tlc


def run(ctx, cases=None):
    res = pobj.run_family(ctx, cases, "C12", focus="history")
    res.assumptions = ["history alphabet = parse, tokenize, failing parse, clear_cache and list-level edits of returned token lists; "
                       "editing Token objects in place or mutating returned trees is outside the statement",
                       "results are compared structurally through the projection (term / token (type,value) list / exception class)"]
    return res


def selftest(ctx):
    tr = pobj.run_history({"texts": ["4x", "4 +"], "history": [["T", 0], ["E", "drain"], ["P", 0], ["T", 0]]})
    ev = {"texts": tr["texts"], "steps": tr["steps"]}
    good, _ = tlc.validate_sharded("TracePobj", "TracePobj.cfg", [dict(ev)], ctx.work)
    import copy
    bad = copy.deepcopy(ev); bad["steps"][2]["res"] = bad["texts"][1]["fp"][0]
    rej, _ = tlc.validate_sharded("TracePobj", "TracePobj.cfg", [bad], ctx.work)
    print("C12 selftest: clean accepted=%s; corrupted step rejected with %s" % (good == {}, rej.get(1)))
    return 0 if good == {} and rej.get(1) else 2
