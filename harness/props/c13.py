"""C13 - cloning yields an identical, independent tree and locates the cloned node.

(D) trees from the parser, from rewrite steps (these contain repeated node ids), from the public constructors
    (every shape up to the bound with kinds repeated or all equal, one-operand nodes with the operand on either
    side, int / float / negative constants) and plain BinaryTreeNode trees are cloned with clone(), and every
    node is cloned from the root in both call forms; then one side is mutated in several ways.
(V) TLC (TraceClone) validates: the clone is isomorphic with equal kinds, constants, names, ids and operand
    sides; shares no object; the original is untouched; prints / evaluates equally; clone_from_root returns
    the node at the same path inside a complete clone; a later change of one tree leaves the other unchanged.
"""
import random
from .. import common, tlc, project, shapes, rewrite
from ..common import Result, Violation
from .c14 import tuple_shape, random_shape

CTX = {"x": 3, "y": -2, "z": 5}


def cvals(objs):
    out = []
    for o in objs.keep:
        v = getattr(o, "value", None) if project.kind_of(o) == "c" else None
        out.append("" if v is None else "%s:%r" % (type(v).__name__, v))
    return out


def snap(objs, roots=()):
    h = project.snapshot(objs, roots)
    h.pop("big", None)
    h["cval"] = cvals(objs)
    return h


def safe_str(t):
    try:
        return "s:" + str(t)
    except BaseException as e:  # noqa
        return "exc:" + type(e).__name__


def safe_view(t):
    """everything a caller can read off a tree without the heap projection: text, MathML, terminal text, per-node classes / ids / change marks"""
    out = [safe_str(t)]
    small = len(rewrite.inorder(t)) <= 40        # to_math_ml of a deep product takes exponential time
    for f in (lambda: t.to_math_ml() if small else "", lambda: t.terminal_text if small else "", lambda: [list(getattr(n, "classes", [])) for n in rewrite.inorder(t)],
              lambda: [getattr(n, "_changed", None) for n in rewrite.inorder(t)], lambda: [getattr(n, "r_index", None) for n in rewrite.inorder(t)],
              lambda: [(getattr(n, "x", None), getattr(n, "y", None), getattr(n, "offset", None)) for n in rewrite.inorder(t)]):
        try:
            out.append(repr(f()))
        except BaseException as e:  # noqa
            out.append("exc:" + type(e).__name__)
    return "\n".join(out)


def safe_eval(t):
    try:
        return "v:%r" % (t.evaluate(dict(CTX)),)
    except BaseException as e:  # noqa
        return "exc:" + type(e).__name__


def build_tree(case):
    if case["src"] == "incomplete":
        # a tree under construction: a one-operand node that has no operand yet (created with either value of child_on_left)
        from mathy_core import expressions as E
        u = {"fact": E.FactorialExpression, "neg": E.NegateExpression, "sgn": E.SgnExpression}[case["kind"]](child_on_left=case["left"]) \
            if case["kind"] != "fact0" else E.FactorialExpression()
        return E.AddExpression(E.VariableExpression("x"), u) if case["where"] == "R" else E.MultiplyExpression(u, E.ConstantExpression(3))
    if case["src"] == "text":
        return rewrite.parse(case["text"])
    if case["src"] == "step":
        t0 = rewrite.parse(case["text"])
        for name, opt, rule in rewrite.rules():
            if (name, opt) == (case["rule"], case["opt"]):
                ev, root = rewrite.step_event(t0, name, opt, rule, case["k"], case["text"])
                return root
        return None
    return shapes.build(tuple_shape(case["shape"]), case["cls"])


def make_events(case):
    out = []
    tree = build_tree(case)
    if tree is None:
        return out
    is_expr = hasattr(tree, "evaluate")
    # ---- clone()
    objs = project.ObjTable()
    hb = snap(objs, [tree])
    ev = {"typ": "clone", "case": case, "hb": hb, "root": objs.of(tree), "croot": 0, "str_o": "", "str_c": "", "eval_o": "", "eval_c": ""}
    try:
        c = tree.clone()
        ev["outcome"] = "ok"
        ev["croot"] = objs.of(c) if hasattr(c, "left") else 0
        if is_expr:
            ev["str_o"], ev["str_c"], ev["eval_o"], ev["eval_c"] = safe_str(tree), safe_str(c), safe_eval(tree), safe_eval(c)
    except BaseException as e:  # noqa
        ev["outcome"] = type(e).__name__
        c = None
    ev["h"] = snap(objs, [c] if c is not None and hasattr(c, "left") else [])
    out.append(ev)
    # ---- independence: mutate one side, observe the other
    if c is not None and hasattr(c, "left"):
        nodes_o = rewrite.inorder(tree)
        owner = [0] * len(objs)
        for n in nodes_o:
            owner[objs.of(n) - 1] = 1
        for n in rewrite.inorder(c):
            owner[objs.of(n) - 1] = 2
        for which, (mut_root, other_root, other_id) in (("clone", (c, tree, 1)), ("orig", (tree, c, 2))):
            for mut in case.get("mutations", ["payload", "relink", "rotate", "api"]):
                # fresh pair for each mutation so that they do not accumulate
                t2 = build_tree(case)
                if t2 is None:
                    continue
                c2 = t2.clone()
                o2 = project.ObjTable()
                a, b = (c2, t2) if which == "clone" else (t2, c2)
                hb2 = snap(o2, [t2, c2])
                own = [0] * len(o2)
                for n in rewrite.inorder(b):
                    own[o2.of(n) - 1] = 7
                before = (safe_view(b), safe_eval(b)) if is_expr else ("", "")
                try:
                    mutate(a, mut)
                except BaseException:  # noqa
                    pass
                h2 = snap(o2, [])
                while len(own) < len(o2):
                    own.append(0)
                after = (safe_view(b), safe_eval(b)) if is_expr else ("", "")
                out.append({"typ": "mutate", "case": case, "which": which, "mut": mut, "hb": hb2, "h": h2, "owner": own, "other": 7,
                            "str_before": before[0], "str_after": after[0], "eval_before": before[1], "eval_after": after[1]})
    # ---- clone_from_root on every node, both call forms
    if is_expr and case.get("only_cfr_at"):
        import sys
        sys.setrecursionlimit(10000)
        nodes = rewrite.inorder(tree)
        out = [e for e in out if e["typ"] == "clone"]           # keep the plain clone event, skip the mutation sweeps on the big tree
        for k in case["only_cfr_at"]:
            if k >= len(nodes):
                continue
            nd = nodes[k]
            objs = project.ObjTable()
            hb = snap(objs, [tree])
            ev = {"typ": "cfr", "case": case, "k": k, "form": "self_deep", "hb": hb, "node": objs.of(nd), "ret": 0}
            try:
                r = nd.clone_from_root()
                ev["outcome"] = "ok"
                ev["ret"] = objs.of(r) if hasattr(r, "left") else 0
            except BaseException as e:  # noqa
                ev["outcome"] = type(e).__name__
                r = None
            ev["h"] = snap(objs, [r] if r is not None and hasattr(r, "left") else [])
            out.append(ev)
        return out
    if is_expr:
        nodes = rewrite.inorder(tree)
        for k, nd in enumerate(nodes):
            for form in ("self", "arg_root", "arg_other"):
                if form == "arg_other" and len(nodes) < 2:
                    continue
                objs = project.ObjTable()
                hb = snap(objs, [tree])
                ev = {"typ": "cfr", "case": case, "k": k, "form": form, "hb": hb, "node": objs.of(nd), "ret": 0}
                try:
                    if form == "self":
                        r = nd.clone_from_root()
                    elif form == "arg_root":
                        r = tree.clone_from_root(nd)
                    else:
                        r = nodes[(k + 1) % len(nodes)].clone_from_root(nd)
                    ev["outcome"] = "ok"
                    ev["ret"] = objs.of(r) if hasattr(r, "left") else 0
                except BaseException as e:  # noqa
                    ev["outcome"] = type(e).__name__
                    r = None
                ev["h"] = snap(objs, [r] if r is not None and hasattr(r, "left") else [])
                out.append(ev)
    # ---- clone_from_root again on the same node after an in-place change of its ancestors
    if is_expr:
        for how in ("rotate_parent", "swap_siblings", "new_root", "restate"):
            tree2 = build_tree(case)
            if tree2 is None:
                break
            nodes = rewrite.inorder(tree2)
            for k in range(len(nodes)):
                t3 = build_tree(case)
                nd = rewrite.inorder(t3)[k]
                if nd.parent is None:
                    continue
                try:
                    nd.clone_from_root()                       # first call (result not needed)
                    if not change_ancestors(nd, how):
                        continue
                except BaseException:  # noqa
                    continue
                objs = project.ObjTable()
                root_now = nd.get_root()
                hb = snap(objs, [root_now])
                ev = {"typ": "cfr", "case": case, "k": k, "form": "again_after_" + how, "hb": hb, "node": objs.of(nd), "ret": 0}
                try:
                    r = nd.clone_from_root()
                    ev["outcome"] = "ok"
                    ev["ret"] = objs.of(r) if hasattr(r, "left") else 0
                except BaseException as e:  # noqa
                    ev["outcome"] = type(e).__name__
                    r = None
                ev["h"] = snap(objs, [r] if r is not None and hasattr(r, "left") else [])
                out.append(ev)
    return out


def change_ancestors(nd, how):
    """re-link the ancestors of nd in place, keeping nd itself; False if not possible here"""
    from mathy_core.expressions import AddExpression, ConstantExpression, SubtractExpression, NegateExpression
    par = nd.parent
    if how == "rotate_parent":
        if par.parent is None:
            return False
        par.rotate()
        return True
    if how == "swap_siblings":
        if par.left is None or par.right is None:
            return False
        l, r = par.left, par.right
        par.set_left(r)
        par.set_right(l)
        return True
    if how == "new_root":
        AddExpression(nd.get_root(), ConstantExpression(1))
        return True
    if how == "restate":
        # what RestateSubtraction does in place: a - b  ->  a + -b  (the ancestor node is replaced, nd is re-used)
        a = par
        while a is not None and not isinstance(a, SubtractExpression):
            a = a.parent
        if a is None:
            return False
        gp = a.parent
        side = gp.get_side(a) if gp is not None else None
        new = AddExpression(a.left, NegateExpression(a.right))
        if gp is not None:
            gp.set_side(new, side)
        return True
    return False


def mutate(root, how):
    from mathy_core.expressions import ConstantExpression, VariableExpression
    nodes = rewrite.inorder(root)
    if how == "payload":
        for n in nodes:
            if isinstance(n, ConstantExpression):
                n.value = (n.value or 0) + 17
            elif isinstance(n, VariableExpression):
                n.identifier = "q"
            n.id = "changed"
    elif how == "relink":
        inner = [n for n in nodes if n.left is not None or n.right is not None]
        if inner:
            n = inner[-1]
            l, r = n.left, n.right
            n.set_left(r)
            n.set_right(l)
    elif how == "rotate":
        kids = [n for n in nodes if n.parent is not None]
        if kids:
            kids[len(kids) // 2].rotate()
    elif how == "api":
        # every other public way to change a node: classes, change marks, layout coordinates, rule bookkeeping
        from mathy_core.layout import TreeLayout
        for k, n in enumerate(nodes):
            for f in (lambda: n.classes.append("appended-%d" % k), lambda: n.classes.extend(["x", "y"]), lambda: n.add_class("mark-%d" % k), lambda: n.add_class(["a", "b"]), lambda: n.set_changed(), lambda: setattr(n, "r_index", k + 100),
                      lambda: n.clear_classes() if k % 3 == 0 else None, lambda: n.add_class("late")):
                try:
                    f()
                except BaseException:  # noqa
                    pass
        try:
            root.all_changed()
            TreeLayout().layout(root, 3, 7)
            for r in rewrite.rules():
                r[2].find_nodes(root)
        except BaseException:  # noqa
            pass


TEXTS = ["-(4! * x) + y", "7 - -(2!)", "-(3!)", "-(3^2 * x)", "3 / -((x + 1) * y)", "(x^y)^z", "3.0x + 2.0", "7.0^30 * y - 2", "1.0", "2.50x^2.0", "4x + 2y^3", "-(2y + 3)^2", "sgn(x - 7)", "3!", "5! + x", "4(x + 2) + 7y", "x = 2y + 1", "2x * 3x * x", "0.5x^2 - -3", "(x + 1)(x - 1)",
         "x + x + x", "2 * 2 * 2", "-x - -x", "-5!", "12345678901234567891x", "x^2^3", "2^(x^y)", "((x))", "7 / (x / y) / z",
         # constants with more digits than any rounding would keep, tiny and huge magnitudes: a copy holds the very same number
         "0.1234567890123456x + 0.30000000000000004", "y / 0.00000000000025 + 0.3333333333333333", "0.000000000000000123x^2", "123456789.12345678y - 0.9999999999999999",
         "1234567890123.4567 * x", "0.00000000000000000000000000001x + 1"]


def domain(ctx):
    rng = random.Random(ctx.seed * 13 + 3)
    cases = [{"src": "text", "text": t} for t in TEXTS]
    # results of rewrite steps: contain cloned sub-terms, i.e. repeated node ids
    for t, r, o, k in [("4(x + 2) + 7y", "dist", "", 3), ("(x + 1) * y", "dist", "", 3), ("2x + 3x", "factor", "", 3), ("x * x^2", "varmul", "", 1),
                       ("6 / -z", "inverse", "", 1), ("4 - 3x", "restate", "", 1), ("2x + 1 = 3", "move", "", 4), ("(4 * 2) * x", "fold", "", 3)]:
        cases.append({"src": "step", "text": t, "rule": r, "opt": o, "k": k})
    # a deep tree: clone_from_root near the top, around depth 64 and at the bottom
    cases.append({"src": "text", "text": " + ".join("%dx" % (k % 9 + 1) for k in range(90)), "only_cfr_at": [0, 1, 2, 3, 50, 120, 176, 177, 178]})
    cases.append({"src": "text", "text": "x * " * 70 + "y", "only_cfr_at": [0, 1, 2, 60, 130, 138, 139, 140]})
    n = 4 if ctx.quick else 6
    for s in shapes.shapes_upto(n):
        for cls in ("expr", "uniform", "btn", "btn_sameid"):
            if cls.startswith("btn") and shapes.size(s) > 4:
                continue
            cases.append({"src": "shape", "shape": s, "cls": cls})
    for _ in range(20 if ctx.quick else 400):
        cases.append({"src": "shape", "shape": random_shape(rng, rng.randint(n + 1, 10)), "cls": rng.choice(["expr", "uniform"]), "mutations": [rng.choice(["payload", "relink", "rotate"])]})
    return cases, ("%d parser texts; 8 rewrite-step results (repeated node ids); every shape <= %d nodes built through the public constructors as mixed-kind / all-equal-kind expression trees "
                   "(one-operand nodes with the operand on either side) and plain nodes; seeded random shapes up to 10 nodes; clone(), clone_from_root on every node in three call forms and again after an in-place change of the node's ancestors (rotate, swap, new root, restate), "
                   "then payload / relink / rotate / public-API (classes, change marks, layout, find_nodes) mutations of either side, the other side observed through the heap, str, MathML, terminal text, classes and evaluate" % (len(TEXTS), n))


def sig(ev, clauses):
    c = ev["case"]
    src = c["src"] if c["src"] != "shape" else c["cls"]
    extra = ev.get("form", ev.get("mut", ""))
    return "C13|%s|%s|%s|%s" % (ev["typ"], ",".join(clauses), extra, src)


def run(ctx, cases=None):
    res = Result()
    if cases is None:
        cases, res.rule = domain(ctx)
        res.exhaustive = True
    else:
        res.rule = "replay"
    from ..common import Pool
    with Pool(16) as pool:
        events = [e for l in pool.map(make_events, cases, chunksize=10) for e in l]
    send = [{k: v for k, v in e.items() if k != "case"} for e in events]
    fails, st = tlc.validate_sharded("TraceClone", "TraceClone.cfg", send, ctx.work, shard_size=max(200, len(send) // 32 + 1))
    res.states += st["distinct"]; res.transitions += st["generated"]
    res.traces = len(events)
    res.evaluations = len(events)
    res.distinct_nontrivial = len({(str(e["case"].get("shape", e["case"].get("text"))), e["case"].get("cls", ""), e["typ"], e.get("k", 0), e.get("form", e.get("mut", "")), e.get("which", "")) for e in events})
    res.rule += " | non-trivial = distinct (tree, operation, node, call form / mutation)"
    res.samples = [{k: v for k, v in events[len(events) // 2].items() if k in ("typ", "case", "k", "form", "outcome", "ret", "node")}]
    res.extra["validator"] = st
    res.extra["events_by_type"] = {t: sum(1 for e in events if e["typ"] == t) for t in ("clone", "cfr", "mutate")}
    for eid, cl in sorted(fails.items()):
        e = events[eid - 1]
        res.violations.append(Violation(sig(e, cl), "%s %s on %s: %s" % (e["typ"], e.get("form", e.get("mut", "")), e["case"], cl), e["case"], cl))
    return res


def selftest(ctx):
    import copy
    evs = make_events({"src": "text", "text": "4x + 2"})
    send = [{k: v for k, v in e.items() if k != "case"} for e in evs]
    good, _ = tlc.validate_sharded("TraceClone", "TraceClone.cfg", copy.deepcopy(send), ctx.work)
    bad = copy.deepcopy(send[0]); bad["h"]["cval"][bad["croot"]] = "int:99"; bad["h"]["kind"][bad["croot"] - 1] = "sub"
    rej, _ = tlc.validate_sharded("TraceClone", "TraceClone.cfg", [bad], ctx.work)
    print("C13 selftest: clean accepted=%s; corrupted clone rejected with %s" % (good == {}, rej.get(1)))
    return 0 if good == {} and rej.get(1) else 2
