"""C14 - traversals and look-ups visit exactly the right nodes in the right order.

(G) TLC explores all binary-tree shapes up to the bound (MC_Heap) and checks that the specification's
    orders are permutations with true depths and satisfy the defining in-order property.
(D) every shape is built from the real BinaryTreeNode and MathExpression classes; pre/in/post visits are
    run with a recording visitor, once without stop and once stopping at every callback position; all
    look-ups are called on every node.
(V) TLC validates every recorded event (TraceHeap): callbacks must equal the specification's sequence of
    (node, depth) computed from the projected link structure; a stopped traversal is exactly a prefix.
"""
import random
from .. import common, tlc, project, shapes
from ..common import Result, Violation

ORD = {"pre": "visit_preorder", "in": "visit_inorder", "post": "visit_postorder"}
LIST = {"pre": "preorder", "in": "inorder", "post": "postorder"}


def build(case):
    s = tuple_shape(case["shape"])
    return shapes.build(s, "expr" if case["cls"] == "expr" else case["cls"])


def tuple_shape(s):
    return None if s is None else (tuple_shape(s[0]), tuple_shape(s[1]))


def make_event(case):
    from mathy_core.tree import STOP
    from mathy_core import expressions as E
    try:
        root = build(case)
    except BaseException as e:  # noqa
        return {"typ": "visit", "cls": "btn", "root": 0, "orders": {}, "h": {"n": 0, "l": [], "r": [], "p": []}, "setup_exc": type(e).__name__}
    via = case.get("via", "")
    if via:
        # the tree under observation is a copy made by the standard copy protocol (of the root, of the root after a layout run left
        # its bookkeeping on the nodes, or of the post-order node list - a descendant is reached before its ancestor)
        import copy
        from mathy_core.layout import TreeLayout
        try:
            if via == "deepcopy_after_layout":
                TreeLayout().layout(root)
            if via == "deepcopy_of_list":
                lst = []
                root.visit_postorder(lambda n, d, x: lst.append(n))
                root = copy.deepcopy(lst)[-1]
            else:
                root = copy.deepcopy(root)
        except BaseException as e:  # noqa
            return {"typ": "visit", "cls": "btn", "root": 0, "orders": {}, "h": {"n": 0, "l": [], "r": [], "p": []}, "setup_exc": type(e).__name__}
    objs = project.ObjTable()
    project.absorb(objs, [root])
    if case["cls"] == "expr" and case.get("dupids"):
        nodes = list(objs.keep)
        for k, nd in enumerate(nodes):
            nd.id = "id%d" % (k % max(1, len(nodes) - 1))  # one duplicated id when n >= 2
    elif case["cls"] == "expr" and len(objs) >= 2:
        nodes = list(objs.keep)
        nodes[0].id = ""
        nodes[-1].id = "0"
    ev = {"typ": "visit", "cls": "expr" if case["cls"] in ("expr", "uniform") else "btn", "root": objs.of(root), "orders": {}, "via": via}
    for o, meth in ORD.items():
        calls = []

        def rec(node, depth, data, calls=calls):
            calls.append([objs.of(node), depth])
            return None
        ret = getattr(root, meth)(rec)
        full = {"full": calls, "stops": [], "ret": "none" if ret is None else str(ret)}
        # the optional parameters at non-default values: a start depth (positional / keyword) and a data object handed through
        shifted = []
        for d0, kw in ((3, False), (7, True)):
            got = []
            token = ["payload", d0]

            def rec_d(node, depth, data, got=got, token=token):
                got.append([objs.of(node), depth - d0 if data is token else -99])
                return None
            try:
                if kw:
                    getattr(root, meth)(rec_d, depth=d0, data=token)
                else:
                    getattr(root, meth)(rec_d, d0, token)
            except BaseException:  # noqa
                got.append([-1, -1])
            shifted.append(got)
        full["shifted"] = shifted
        # a visitor that raises at its k-th callback: the exception reaches the caller, nothing more is called, and the next
        # traversal of the same tree is complete again
        after = []
        for k in sorted({1, 2, max(1, len(calls) // 2), len(calls)}):
            seen = []

            def rec_x(node, depth, data, seen=seen, k=k):
                seen.append([objs.of(node), depth])
                if len(seen) == k:
                    raise KeyError("visitor failed")
                return None
            try:
                getattr(root, meth)(rec_x)
                outcome = "returned"
            except KeyError:
                outcome = "raised"
            except BaseException as e:  # noqa
                outcome = "other:" + type(e).__name__
            again = []
            try:
                getattr(root, meth)(lambda node, depth, data, again=again: again.append([objs.of(node), depth]))
            except BaseException:  # noqa
                again.append([-1, -1])
            after.append({"k": k, "seen": seen, "outcome": outcome, "again": again})
        full["raising"] = after
        # a visitor that answers with other values than None / the stop signal (True, 1, "go", the node itself): not a stop
        odd = []
        for val in (True, 1, "go", "node", 0, ""):
            got = []

            def rec_o(node, depth, data, got=got, val=val):
                got.append([objs.of(node), depth])
                return node if val == "node" else val
            try:
                ret = getattr(root, meth)(rec_o)
                got.append([0, 0] if ret is None else [-2, -2])       # the walk as a whole returns None
            except BaseException:  # noqa
                got.append([-1, -1])
            odd.append(got)
        full["odd"] = odd
        n = len(objs)
        for k in list(range(1, n + 1)) + [n + 1]:
            calls_k = []

            def rec_k(node, depth, data, calls_k=calls_k, k=k):
                calls_k.append([objs.of(node), depth])
                # the stop signal is a value ("stop"): every other time it is handed back as an equal string that is not the library's constant
                return (STOP if k % 2 else "".join(["st", "op"])) if len(calls_k) == k else None
            try:
                ret = getattr(root, meth)(rec_k)
                rets = "none" if ret is None else str(ret)
            except BaseException as e:  # noqa
                rets = "exc:" + type(e).__name__
            full["stops"].append({"k": k, "calls": calls_k, "ret": rets})
        # a read-only visitor that itself walks the tree (any order) at its k-th callback: the outer walk must be unaffected
        nested = []
        for inner in ORD.values():
            outer_calls = []

            def rec_n(node, depth, data, outer_calls=outer_calls, inner=inner):
                outer_calls.append([objs.of(node), depth])
                if len(outer_calls) in (1, 2):
                    getattr(root, inner)(lambda n, d, x: None)
                    getattr(node, inner)(lambda n, d, x: None)
                return None
            try:
                getattr(root, meth)(rec_n)
            except BaseException as e:  # noqa
                outer_calls.append([-1, -1])
            nested.append(outer_calls)
        full["nested"] = nested
        ev["orders"][o] = full
    # a visitor that prunes an operand of the node it is called for: nodes removed before they were reached get no callback
    ev["prune"] = []
    if not via and 2 <= len(objs) <= 7:
        for o, meth in ORD.items():
            for k in range(1, len(objs) + 1):
                for side in ("L", "R"):
                    try:
                        r2 = build(case)
                    except BaseException:  # noqa
                        continue
                    o2 = project.ObjTable()
                    project.absorb(o2, [r2])
                    got = []
                    cut = [0]

                    def rec_p(node, depth, data, got=got, k=k, side=side, o2=o2, cut=cut):
                        got.append([o2.of(node), depth])
                        if len(got) == k:
                            child = node.left if side == "L" else node.right
                            if child is not None:
                                cut[0] = o2.of(child)
                                (node.set_left if side == "L" else node.set_right)(None)
                        return None
                    try:
                        getattr(r2, meth)(rec_p)
                    except BaseException:  # noqa
                        got.append([-1, -1])
                    if cut[0]:
                        ev["prune"].append({"o": o, "k": k, "cut": cut[0], "calls": got})
    # traversals started at an inner node stay inside that node's subtree (depths count from the start node)
    ev["sub"] = []
    if len(objs) <= 7:
        for start in objs.keep:
            if start is root:
                continue
            for o, meth in ORD.items():
                calls = []

                def rec_s(node, depth, data, calls=calls):
                    calls.append([objs.of(node), depth])
                    return None
                try:
                    ret = getattr(start, meth)(rec_s)
                    rets = "none" if ret is None else str(ret)
                except BaseException as e:  # noqa
                    rets = "exc:" + type(e).__name__
                item = {"start": objs.of(start), "o": o, "calls": calls[:64], "ret": rets, "tolist": []}
                if hasattr(start, "to_list"):
                    try:
                        item["tolist"] = [objs.of(n) for n in start.to_list(LIST[o])][:64]
                    except BaseException:  # noqa
                        item["tolist"] = [-1]
                ev["sub"].append(item)
    q = {"root": [], "rootside": [], "side": [], "sibling": [], "children": [], "leaf": []}
    for nd in objs.keep:
        def safe(f):
            try:
                return f()
            except BaseException as e:  # noqa
                return "exc:" + type(e).__name__
        r = safe(nd.get_root)
        q["root"].append(objs.of(r) if not isinstance(r, str) else -1)
        q["rootside"].append(safe(nd.get_root_side) if nd.parent is not None else "n/a")
        q["side"].append(safe(lambda: nd.parent.get_side(nd)) if nd.parent is not None else "n/a")
        sb = safe(nd.get_sibling)
        q["sibling"].append(objs.of(sb) if not isinstance(sb, str) else -1)
        ch = safe(nd.get_children)
        q["children"].append([objs.of(c) for c in ch] if not isinstance(ch, str) else [-1])
        lf = safe(nd.is_leaf)
        q["leaf"].append(bool(lf) if not isinstance(lf, str) else "exc")
    ev["q"] = q
    ev["h"] = project.snapshot(objs, payload=(ev["cls"] == "expr"))
    if ev["cls"] == "expr":
        x = {"tolist": {}, "findtype": [], "findid": []}
        for o, name in LIST.items():
            x["tolist"][o] = [objs.of(n) for n in root.to_list(name)]
        concrete = list(project.KIND.items())
        for T in (E.ConstantExpression, E.BinaryExpression, E.AddExpression, E.UnaryExpression, E.MathExpression, E.FunctionExpression, E.VariableExpression):
            kinds = [k for c, k in concrete if issubclass(c, T)]
            x["findtype"].append({"kinds": kinds, "got": [objs.of(n) for n in root.find_type(T)]})
        ids = sorted({str(n.id) for n in objs.keep}) + ["no-such-id"]
        for i in ids[:6] + ids[-1:]:
            got = root.find_id(i)
            x["findid"].append({"id": i, "got": objs.of(got)})
        ev["x"] = x
    return ev


def edit_session(case):
    """look-ups on every node, an in-place edit, the same look-ups on the same objects again (twice over)"""
    from mathy_core import expressions as E
    out = []
    for how in ("rotate", "swap", "newroot", "unlink", "reattach", "replace"):
        try:
            probe = build(case)
        except BaseException:  # noqa
            return out
        n = len(list(project.ObjTable().keep)) if False else None
        count = len(_inorder(probe))
        for k in range(count):
            root = build(case)
            objs = project.ObjTable()
            project.absorb(objs, [root])
            nodes = list(objs.keep)
            if case.get("dupids"):
                for j, nd in enumerate(nodes):
                    nd.id = "id%d" % (j % max(1, len(nodes) - 1))
            elif len(nodes) >= 2:
                nodes[0].id = ""           # ids are public and free-form: an empty one and a zero-like one are ids like any other
                nodes[-1].id = "0"
            target = _inorder(root)[k]
            steps = []

            def ask(after):
                roots_now = {id(nd.get_root()): nd.get_root() for nd in nodes}
                h = project.snapshot(objs, list(roots_now.values()), payload=True)
                ids = sorted({str(nd.id) for nd in nodes})[:5] + ["no-such-id"]
                st = {"after": after, "h": h, "findid": [], "lists": [], "roots": [], "sibs": []}
                for nd in nodes:
                    for i in ids:
                        try:
                            got = objs.of(nd.find_id(i))
                        except BaseException:  # noqa
                            got = -1
                        st["findid"].append({"start": objs.of(nd), "id": i, "got": got})
                    try:
                        st["lists"].append({"start": objs.of(nd), "got": [objs.of(x) for x in nd.to_list("inorder")]})
                    except BaseException:  # noqa
                        st["lists"].append({"start": objs.of(nd), "got": [-1]})
                    try:
                        st["roots"].append({"start": objs.of(nd), "got": objs.of(nd.get_root())})
                    except BaseException:  # noqa
                        st["roots"].append({"start": objs.of(nd), "got": -1})
                    try:
                        st["sibs"].append({"start": objs.of(nd), "got": objs.of(nd.get_sibling())})
                    except BaseException:  # noqa
                        st["sibs"].append({"start": objs.of(nd), "got": -1})
                steps.append(st)
            ask("nothing")
            try:
                if how == "rotate":
                    if target.parent is None:
                        continue
                    target.rotate()
                elif how == "swap":
                    if target.left is None or target.right is None:
                        continue
                    l, r = target.left, target.right
                    target.set_left(r)
                    target.set_right(l)
                elif how == "reattach":
                    # the setters' optional flag at its non-default value, re-attaching the operand that is already there
                    if target.left is None and target.right is None:
                        continue
                    if target.left is not None:
                        target.set_left(target.left, clear_old_child_parent=True)
                    if target.right is not None:
                        target.set_right(target.right, True)
                elif how == "newroot":
                    if k > 0:
                        continue
                    extra = E.AddExpression(root, E.ConstantExpression(1))
                    project.absorb(objs, [extra])
                    nodes = list(objs.keep)
                elif how == "replace":
                    # an operand replaced through the setter with its default flag: the replaced node keeps pointing at its former
                    # parent, but it is no operand of it any more - it has no sibling and is in no listing
                    if target.parent is None:
                        continue
                    par = target.parent
                    par.set_side(E.ConstantExpression(9), par.get_side(target))
                    project.absorb(objs, [par.get_root()])
                    nodes = list(objs.keep)
                elif how == "unlink":
                    if target.parent is None:
                        continue
                    par = target.parent
                    par.set_side(E.ConstantExpression(7), par.get_side(target))
                    target.parent = None
                    project.absorb(objs, [par.get_root()])
                    nodes = list(objs.keep)
            except BaseException:  # noqa
                continue
            ask(how)
            if how == "rotate" and target.parent is not None:
                try:
                    target.rotate()
                    ask("rotate_twice")
                except BaseException:  # noqa
                    pass
            out.append({"typ": "editsession", "cls": "expr", "steps": steps})
    return out


def _inorder(root):
    out = []

    def rec(n):
        if n is None:
            return
        rec(n.left); out.append(n); rec(n.right)
    rec(root)
    return out


def domain(ctx):
    n = 6 if ctx.quick else 9
    cases = []
    for s in shapes.shapes_upto(n):
        cases.append({"shape": s, "cls": "btn"})
        if shapes.size(s) <= (6 if ctx.quick else 8):
            cases.append({"shape": s, "cls": "expr", "dupids": shapes.size(s) % 2 == 0})
        if shapes.size(s) <= 5:
            cases.append({"shape": s, "cls": "uniform"})
            cases.append({"shape": s, "cls": "btn_sameid"})
    rng = random.Random(ctx.seed)
    for _ in range(60 if ctx.quick else 600):   # seeded random larger shapes
        cases.append({"shape": random_shape(rng, rng.randint(n + 1, 14)), "cls": rng.choice(["btn", "expr"]), "dupids": True})
    return cases, "all %d binary tree shapes with <= %d nodes (plain nodes; expression-typed nodes for the smaller ones) + seeded random shapes up to 14 nodes; 3 orders (also with a start depth and a data object given positionally / by keyword) x every stop position (the stop signal alternately the library constant and an equal string built at run time); all look-ups on every node; for expression trees of 2..5 (thorough: 7) nodes, look-ups from every node repeated on the same objects after rotate / rotate twice / swapped operands / a new root / a replaced subtree at every node" % (
        len(shapes.shapes_upto(n)), n)


def random_shape(rng, n):
    if n == 0:
        return None
    k = rng.randint(0, n - 1)
    return (random_shape(rng, k), random_shape(rng, n - 1 - k))


def sig(ev, clauses):
    return "C14|%s|%s" % (",".join(sorted(clauses)), ev["cls"])


def run(ctx, cases=None):
    res = Result()
    if cases is None:
        model = tlc.run("MC_Heap", "MC_Heap_quick.cfg" if ctx.quick else "MC_Heap_thorough.cfg", ctx.work, workers=8, timeout=1500, xmx="6g")
        res.add_tlc(model, "model")
        if not model.ok():
            raise tlc.TLCError("Heap specification violates its own invariant %s\n%s" % (model.violated, model.out[-2000:]))
        cases, res.rule = domain(ctx)
        res.exhaustive = True
    else:
        res.rule = "replay"
    from ..common import Pool
    with Pool(16) as pool:
        events = pool.map(make_event, cases, chunksize=50)
        sess_cases = [c for c in cases if c["cls"] == "expr" and 2 <= shapes.size(tuple_shape(c["shape"])) <= (5 if ctx.quick else 7)]
        sessions = [(c, e) for c, l in zip(sess_cases, pool.map(edit_session, sess_cases, chunksize=5)) for e in l]
    res.extra["edit_sessions"] = len(sessions)
    broken = [(k, e) for k, e in enumerate(events) if e.get("setup_exc")]
    keep = [k for k, e in enumerate(events) if not e.get("setup_exc")]
    allcases, cases = cases, [cases[k] for k in keep]
    events = [events[k] for k in keep]
    nvisit = len(events)
    events = events + [e for _, e in sessions]
    cases = cases + [c for c, _ in sessions]
    fails, st = tlc.validate_sharded("TraceHeap", "TraceHeap.cfg", events, ctx.work, shard_size=max(100, len(events) // 32 + 1))
    res.states += st["distinct"]; res.transitions += st["generated"]
    res.traces = len(events)
    res.evaluations = sum(3 * (e["h"]["n"] + 2) + 6 * e["h"]["n"] for e in events[:nvisit]) + sum(len(st_["findid"]) + 2 * len(st_["lists"]) for e in events[nvisit:] for st_ in e["steps"])
    res.distinct_nontrivial = len({(str(c["shape"]), c["cls"]) for c in cases if shapes.size(tuple_shape(c["shape"])) >= 3})
    res.rule += " | evaluations = traversal runs + look-up calls; non-trivial = distinct (shape, node class) with >= 3 nodes"
    e0 = events[min(40, len(events) - 1)]
    res.samples = [{"heap": {k: e0["h"][k] for k in ("n", "l", "r", "p")}, "inorder_calls": e0["orders"]["in"]["full"],
                    "stop_at_2": e0["orders"]["in"]["stops"][1] if len(e0["orders"]["in"]["stops"]) > 1 else None}]
    res.extra["validator"] = st
    for k, e in broken:
        res.violations.append(Violation("C14|constructing the tree raised %s|%s" % (e["setup_exc"], allcases[k]["cls"]),
                                        "building %s shape %s raised %s" % (allcases[k]["cls"], allcases[k]["shape"], e["setup_exc"]), allcases[k], ["setup"]))
    res.extra["traversals_whose_visitor_prunes_the_tree_and_that_differ_from_the_live_walk"] = sum(1 for cl in fails.values() if any(c.startswith("note_") for c in cl))
    for eid, clauses in sorted(fails.items()):
        clauses = [c for c in clauses if not c.startswith("note_")]       # a visitor that edits the tree while it is walked: outside the statement, reported only
        if not clauses:
            continue
        ev = events[eid - 1]
        res.violations.append(Violation(sig(ev, clauses), "traversal/look-up on %s shape %s fails %s" % (cases[eid - 1]["cls"], cases[eid - 1]["shape"], clauses), cases[eid - 1], clauses))
    return res


def selftest(ctx):
    ev = make_event({"shape": ((None, None), ((None, None), None)), "cls": "btn"})
    good, _ = tlc.validate_sharded("TraceHeap", "TraceHeap.cfg", [dict(ev)], ctx.work)
    import copy
    bad = copy.deepcopy(ev)
    bad["orders"]["post"]["full"][0][1] += 1
    rej, _ = tlc.validate_sharded("TraceHeap", "TraceHeap.cfg", [bad], ctx.work)
    print("C14 selftest: clean accepted=%s corrupted rejected with %s" % (good == {}, rej.get(1)))
    return 0 if good == {} and rej.get(1) == ["full_post"] else 2
