"""C15 - rotation preserves the in-order sequence and link consistency.

(G) TLC explores all shapes up to the bound and every node in them (MC_Heap) and checks that the
    specification's reference rotation satisfies the C15 contract and is undone by rotating the old parent.
(D) the real node.rotate() is called on every node of every shape; heaps before and after are projected
    over the same universe of node objects (so dangling or stale links are visible).
(V) TLC validates each before/after pair against the contract (RotateClauses) and the reference action.
"""
import random
from .. import common, tlc, project, shapes
from ..common import Result, Violation
from .c14 import tuple_shape, random_shape


def make_event(case):
    s = tuple_shape(case["shape"])
    try:
        root = shapes.build(s, case["cls"])
    except BaseException as e:  # noqa  (the public constructors refused a legitimate tree)
        return {"typ": "rotate", "h": {"n": 0}, "root": 0, "node": case["node"], "h2": {"n": 0}, "ret_self": False, "exc": "constructing the tree raised " + type(e).__name__, "grew": False}
    objs = project.ObjTable()
    project.absorb(objs, [root])
    node = objs.obj(case["node"])
    if case.get("first"):
        # a rotation of another node first: the tree the judged rotation starts from is one that only a rotation produces
        # (a one-operand node whose operand sits on its other side, a former root below its former child)
        try:
            objs.obj(case["first"]).rotate()
        except BaseException:  # noqa  (judged by the single-rotation case of that node)
            pass
        root = node.get_root()
    h = project.snapshot(objs, payload=False)
    try:
        ret = node.rotate()
        ret_self = ret is node
        exc = ""
    except BaseException as e:  # noqa
        ret_self = False
        exc = type(e).__name__
    h2 = project.snapshot(objs, payload=False)
    return {"typ": "rotate", "h": h, "root": objs.of(root), "node": case["node"], "h2": h2, "ret_self": ret_self, "exc": exc, "grew": h2["n"] != h["n"]}


def domain(ctx):
    n = 7 if ctx.quick else 9
    cases = []
    for s in shapes.shapes_upto(n):
        for i in range(1, shapes.size(s) + 1):
            cases.append({"shape": s, "node": i, "cls": "btn"})
    for s in shapes.shapes_upto(5 if ctx.quick else 6):
        for i in range(1, shapes.size(s) + 1):
            cases.append({"shape": s, "node": i, "cls": "expr"})
            # nothing but object identity distinguishes the nodes (equal ids, equal constants, equal kinds)
            cases.append({"shape": s, "node": i, "cls": "uniform"})
            cases.append({"shape": s, "node": i, "cls": "btn_sameid"})
    # two rotations in a row on one tree: every (first, second) pair of nodes
    for s in shapes.shapes_upto(4 if ctx.quick else 5):
        for i in range(1, shapes.size(s) + 1):
            for j in range(1, shapes.size(s) + 1):
                for cls in ("expr", "btn"):
                    cases.append({"shape": s, "node": j, "cls": cls, "first": i})
    # deep chains: rotation must not depend on how far below the root the node sits
    def chain(n, side):
        s = None
        for _ in range(n):
            s = (s, None) if side == "L" else (None, s)
        return s

    def zigzag(n):
        s = None
        for i in range(n):
            s = (s, None) if i % 2 else (None, s)
        return s
    for deep in (40, 70, 130):
        for sh in (chain(deep, "L"), chain(deep, "R"), zigzag(deep)):
            for i in (1, 2, 3, deep // 2, 64, 65, 66, 67, deep - 2, deep - 1, deep):
                if 1 <= i <= deep:
                    cases.append({"shape": sh, "node": i, "cls": "btn"})
                    if deep <= 70:
                        cases.append({"shape": sh, "node": i, "cls": "expr"})
    rng = random.Random(ctx.seed)
    for _ in range(300 if ctx.quick else 5000):
        m = rng.randint(n + 1, 16)
        cases.append({"shape": random_shape(rng, m), "node": rng.randint(1, m), "cls": rng.choice(["btn", "expr", "uniform", "btn_sameid"])})
    return cases, "every node of all %d shapes with <= %d nodes (plain nodes), of all shapes <= 5 nodes (expression nodes; nodes with equal ids / equal constants / equal kinds, distinguishable by identity only), + chains and zig-zags of 40 / 70 / 130 nodes rotated near the root, around depth 64 and at the bottom + seeded random shapes up to 16 nodes" % (len(shapes.shapes_upto(n)), n)


def run(ctx, cases=None):
    res = Result()
    if cases is None:
        model = tlc.run("MC_Heap", "MC_Heap_quick.cfg" if ctx.quick else "MC_Heap_thorough.cfg", ctx.work, workers=8, timeout=1500, xmx="6g")
        res.add_tlc(model, "model")
        if not model.ok():
            raise tlc.TLCError("Heap specification violates its own invariant %s\n%s" % (model.violated, model.out[-2000:]))
        cases, res.rule = domain(ctx)
        res.exhaustive = True
    else:
        res.rule = "replay"
    from ..common import Pool
    with Pool(16) as pool:
        events = pool.map(make_event, cases, chunksize=200)
    # a rotation that creates objects or raises is judged without TLC help (the heaps are not comparable)
    weird = [(k, e) for k, e in enumerate(events) if e["grew"] or e["exc"]]
    ok_events = [e for e in events if not (e["grew"] or e["exc"])]
    idx = [k for k, e in enumerate(events) if not (e["grew"] or e["exc"])]
    fails, st = tlc.validate_sharded("TraceHeap", "TraceHeap.cfg", ok_events, ctx.work, shard_size=max(400, len(ok_events) // 32 + 1))
    res.states += st["distinct"]; res.transitions += st["generated"]
    res.traces = len(events)
    res.evaluations = len(events)
    res.distinct_nontrivial = len({(str(c["shape"]), c["node"], c["cls"]) for c in cases if c["node"] != 1})
    res.rule += " | non-trivial = distinct (shape, node, class) with a non-root node"
    res.samples = [{"before": {k: ok_events[30]["h"][k] for k in "lrp"}, "node": ok_events[30]["node"], "after": {k: ok_events[30]["h2"][k] for k in "lrp"}}] if len(ok_events) > 30 else [ok_events[0]]
    res.extra["validator"] = st
    for eid, clauses in sorted(fails.items()):
        c = cases[idx[eid - 1]]
        res.violations.append(Violation("C15|%s|%s" % (",".join(clauses), c["cls"]), "rotate node %d of %s shape %s fails %s" % (c["node"], c["cls"], c["shape"], clauses), c, clauses))
    for k, e in weird:
        c = cases[k]
        what = "raises " + e["exc"] if e["exc"] else "creates node objects"
        res.violations.append(Violation("C15|%s|%s" % (what, c["cls"]), "rotate node %d of shape %s %s" % (c["node"], c["shape"], what), c, [what]))
    return res


def selftest(ctx):
    ev = make_event({"shape": ((None, None), ((None, None), None)), "node": 2, "cls": "btn"})
    good, _ = tlc.validate_sharded("TraceHeap", "TraceHeap.cfg", [dict(ev)], ctx.work)
    import copy
    bad = copy.deepcopy(ev); bad["h2"]["p"][2] = 0
    rej, _ = tlc.validate_sharded("TraceHeap", "TraceHeap.cfg", [bad], ctx.work)
    print("C15 selftest: clean accepted=%s corrupted rejected with %s" % (good == {}, rej.get(1)))
    return 0 if good == {} and rej.get(1) else 2
