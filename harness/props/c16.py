"""C16 - term analysis is order-invariant and inverse to term construction.

(G) TLC (MC_Terms) enumerates, for every multiset of addends, the whole rearrangement class - all orderings x all
    groupings, closed under the AC moves Commute / Reassoc - checks every move keeps the bag of addends, and emits
    each member.
(D) every member is built (by parsing its fully parenthesised text and through constructors) and the real
    has_like_terms is asked; terms_are_like on pairs of term nodes; get_term_ex on the parsed text of every triple;
    make_term on every triple; factor(n); every term predicate on non-equation trees.
(V) TLC (TraceTerms) validates constancy per class, reflexivity / symmetry, the inverse laws (value by exact field
    evaluation), divisor pairs, and that nothing raised.
"""
import itertools
import random
import re

from .. import common, tlc, project, rewrite, parsefam
from ..common import Result, Violation

FORMS = ["2", "x", "y", "2x", "3y", "x^2", "4x^2", "-x", "(x + 1) * y", "-3", "y^2", "2x^2"]


def tree_text(t, top=True):
    if t[0] == 0:
        return FORMS[t[1] - 1]
    s = "%s + %s" % (tree_text(t[1], False), tree_text(t[2], False))
    return s if top else "(%s)" % s


def tree_build(t):
    from mathy_core.expressions import AddExpression
    if t[0] == 0:
        return rewrite.parse(FORMS[t[1] - 1]).clone()
    return AddExpression(tree_build(t[1]), tree_build(t[2]))


def ask(f, *a):
    try:
        r = f(*a)
        return "T" if r else "F"
    except BaseException:  # noqa
        return "exc"


def class_event(item):
    from mathy_core.util import has_like_terms
    base, members = item
    answers = []
    for m in members:
        answers.append(ask(has_like_terms, rewrite.parse(tree_text(m))))
        answers.append(ask(has_like_terms, tree_build(m)))
    return {"typ": "class", "base": base, "answers": answers, "n": len(members)}


def qenc(x):
    if x is None:
        return ["none"]
    try:
        import numpy as np
        if isinstance(x, np.generic):
            x = x.item()
    except Exception:  # noqa
        pass
    n, d, tag = project.const_ratio(x)
    if tag == "big":
        return ["b", str(int(x)), ""]          # integers beyond TLC's range are compared digit for digit
    if tag == "repr":
        return ["b", repr(float(x)), ""]       # decimals that are not small rationals: compared by their shortest decimal
    if d == 0:
        return ["q", 0, 0]
    return ["q", n, d]


def tenc(c, v, e):
    return {"c": qenc(c), "v": 0 if v is None else ord(v[0]), "e": qenc(e)}


def coef_text(c):
    return "" if c is None else (("%d" % c) if c == int(c) else repr(float(c)))


def triple_text(c, v, e):
    """the natural-order text of a term"""
    if v is None:
        return coef_text(c)
    s = coef_text(c) + v
    if e is not None:
        s += "^" + (("%d" % e) if e == int(e) else repr(float(e)))
    return s


def triple_event(tr):
    from mathy_core.util import get_term_ex
    c, v, e = tr
    text = triple_text(c, v, e)
    ev = {"typ": "triple", "text": text, "want": tenc(c, v, e), "got": tenc(None, None, None), "outcome": "ok"}
    try:
        got = get_term_ex(rewrite.parse(text))
        if got is None:
            ev["outcome"] = "none"
        else:
            ev["got"] = tenc(got.coefficient, got.variable, got.exponent)
    except BaseException as ex:  # noqa
        ev["outcome"] = type(ex).__name__
    return ev


def make_event(tr):
    from mathy_core.util import get_term_ex, make_term
    c, v, e = tr
    ev = {"typ": "make", "want": tenc(c, v, e), "term": {"k": "other"}, "back": tenc(None, None, None), "back_ok": False, "outcome": "ok", "args": [c, v, e]}
    try:
        t = make_term(*([1 if c is None else c, v, e]))
        ev["term"] = project.term(t)
        back = get_term_ex(t)
        if back is not None:
            ev["back"] = tenc(back.coefficient, back.variable, back.exponent)
            ev["back_ok"] = True
    except BaseException as ex:  # noqa
        ev["outcome"] = type(ex).__name__
    return ev


def factor_event(n):
    return _factor_event(n)


def _factor_event(n):
    from mathy_core.util import factor
    try:
        d = factor(n)
        keys = sorted(d)
        ok = all(float(k) == int(k) and float(d[k]) == int(d[k]) for k in keys)
        return {"typ": "factor", "n": n, "keys": [int(k) for k in keys] if ok else [0], "vals": [int(d[k]) for k in keys] if ok else [0]}
    except BaseException:  # noqa
        return {"typ": "factor", "n": n, "keys": [0], "vals": [0]}


def like_event(pair):
    from mathy_core.util import terms_are_like, get_term
    a_text, b_text = pair
    s = rewrite.parse("%s + %s" % (a_text if not a_text.startswith("-") else "(%s)" % a_text, b_text if not b_text.startswith("-") else "(%s)" % b_text))
    a, b = s.left, s.right

    def rec(n):
        try:
            return get_term(n) is not False
        except BaseException:  # noqa
            return False
    return {"typ": "like", "a": a_text, "b": b_text, "ab": ask(terms_are_like, a, b), "ba": ask(terms_are_like, b, a),
            "aa": ask(terms_are_like, a, a), "bb": ask(terms_are_like, b, b), "rec_a": rec(a), "rec_b": rec(b)}


def calls_event(text):
    from mathy_core import util as U
    try:
        t = rewrite.parse(text)
    except BaseException:  # noqa
        return None
    raised = []
    nodes = rewrite.inorder(t)

    def call(name, f, *a):
        try:
            f(*a)
        except BaseException as e:  # noqa
            raised.append("%s:%s" % (name, type(e).__name__))
    call("has_like_terms", U.has_like_terms, t)
    call("get_terms", U.get_terms, t)
    call("is_simple_term", U.is_simple_term, t)
    call("is_preferred_term_form", U.is_preferred_term_form, t)
    for n in nodes:
        call("get_term", U.get_term, n)
        call("get_term_ex", U.get_term_ex, n)
        call("is_simple_term(node)", U.is_simple_term, n)
        call("is_preferred_term_form(node)", U.is_preferred_term_form, n)
        call("has_like_terms(node)", U.has_like_terms, n)
    for a, b in itertools.islice(itertools.product(nodes, repeat=2), 80):
        call("terms_are_like", U.terms_are_like, a, b)
    return {"typ": "calls", "text": text, "raised": sorted(set(raised))}


def parse_tree(v):
    return v


def tlc_classes(ctx, res, cfgs):
    classes = {}
    for cfg in cfgs:
        r = tlc.run("MC_Terms", cfg, ctx.work, workers=1, timeout=1500, xmx="6g")  # one worker: multi-line PrintT output must not interleave
        res.add_tlc(r, "rearrangements " + cfg)
        if not r.ok():
            raise tlc.TLCError("Terms specification violates %s\n%s" % (r.violated, r.out[-1500:]))
        for p in r.printed:
            if p and p[0] == "R":
                classes.setdefault(tuple(p[1]), set()).add(repr(p[2]))
    return [(list(b), [eval(m) for m in sorted(ms)]) for b, ms in sorted(classes.items())]


def domain(ctx, res):
    rng = random.Random(ctx.seed * 23 + 9)
    classes = tlc_classes(ctx, res, ["MC_Terms_3.cfg", "MC_Terms_4q.cfg"] if ctx.quick else ["MC_Terms_3.cfg", "MC_Terms_4.cfg", "MC_Terms_5.cfg"])
    cs = [None, 1, 2, -3, 0.5, 0, 12, -1, 9007199254740993, 123456789012345678901]
    vs = [None, "x", "z", "X"]
    es = [None, 2, 0, -1, 0.5, 1, 3]
    triples = [(c, v, e) for c in cs for v in vs for e in es if not (v is None and (e is not None or c is None))]
    written = [t for t in triples if not (t[0] == -1)] + [(2, "x", 9007199254740993), (None, "z", 2 ** 64 + 1), (1.0000000001, "x", 2), (0.9999999999, "z", None)]
    near_one = [(c, v, e) for c in (1.0000000001, 0.9999999999, 1.000001, -1.0000000001, 1.0) for v in ("x",) for e in (None, 2, 0)]
    triples = [t for t in triples if t[0] is None or abs(t[0]) < 2 ** 30]      # make_term is exercised with ordinary coefficients   # "-1x" is written with its coefficient; "-x" is covered below
    ns = list(range(1, 501 if ctx.quick else 20001))
    # beyond any small-number fast path: big perfect squares, k(k+1), k(k+2), powers of two, round numbers (divisor pairs around the root)
    ns += [4096 ** 2, 4097 ** 2, 4097 * 4098, 4097 * 4099, 5000 ** 2, 5000 * 5001, 2 ** 26, 10 ** 8, 9973 ** 2, 9973 * 10007, 2 ** 24 + 1, 12345678, 46340 ** 2] + \
          ([] if ctx.quick else [2 ** 31 - 1, 46337 * 46327, 2 ** 30, 40000 * 40001])          # (TLC integers are 32-bit: n < 2^31)
    huge = "1" + "0" * 400          # an exact integer beyond the range of a double (as exponent, coefficient and constant)
    like_forms = FORMS + ["(x + 1)^2", "0.5x", "x^0", "2x * y", "x * y", "y * x", "4", "x / 2", "x^" + huge, "7x^" + huge, huge + "x", huge + "x^2", huge, "x^2.0", "3x^2.0", "x^-" + huge]
    pairs = list(itertools.product(like_forms, repeat=2))
    texts = rewrite.term_level(3, rewrite.TERMS_Q)
    texts = rewrite.term_level(2, rewrite.TERMS_Q) + rng.sample(texts, 800 if ctx.quick else 20000) + parsefam.CURATED
    texts += ["x^" + huge, "7x^" + huge + " + x^" + huge, huge + "x + 2x", huge + "x^2 + " + huge + "x^2", "x^" + huge + " * x^2", huge + " + " + huge, "x^2.0 + 3x^2", "2x^" + huge + " * 3y",
              "x^-" + huge + " + x", "4x^(2^" + "9" * 30 + ")", "-" + huge + "x^3 + y"]
    texts = [t for t in texts if "=" not in t]
    rule = ("%d rearrangement classes emitted by TLC (all multisets of 3 addends over 12 term forms%s; every ordering x grouping; each member built by parsing and by constructors); "
            "%d triples (c in absent,1,2,-3,0.5,0,12,-1; v in absent,x,z; e in absent,2,0,-1,0.5,1,3); factor(n) for n = 1..%d; terms_are_like on %d ordered pairs of %d forms; "
            "all term predicates on %d non-equation trees" % (len(classes), ", a sample of 4-addend classes" if ctx.quick else ", all 4-addend and sampled 5-addend classes",
                                                           len(triples), ns[-1], len(pairs), len(like_forms), len(texts)))
    return classes, written, triples, near_one, ns, pairs, texts, rule


def run(ctx, cases=None):
    res = Result()
    from ..common import Pool
    if cases is None:
        classes, written, triples, near_one, ns, pairs, texts, res.rule = domain(ctx, res)
        with Pool(16) as pool:
            events = pool.map(class_event, classes, chunksize=8)
            events += pool.map(triple_event, written)
            events += [triple_event((None, v, e)) for v in ("x",) for e in (None, 2)]
            events += pool.map(make_event, triples + near_one)
            events += pool.map(factor_event, ns, chunksize=200)
            events += pool.map(like_event, pairs, chunksize=20)
            events += [e for e in pool.map(calls_event, texts, chunksize=50) if e is not None]
        # "-x" and "-x^2": written coefficient -1 without the digit
        from mathy_core.util import get_term_ex
        for text, want in (("-x", (-1, "x", None)), ("-x^2", (-1, "x", 2)), ("-z^3", (-1, "z", 3))):
            got = get_term_ex(rewrite.parse(text))
            events.append({"typ": "triple", "text": text, "want": tenc(*want), "got": tenc(got.coefficient, got.variable, got.exponent) if got else tenc(None, None, None), "outcome": "ok" if got else "none"})
    else:
        events = []
        for c in cases:
            if c["typ"] == "class":
                events.append(class_event((c["base"], c["members"])))
            elif c["typ"] == "triple":
                events.append(triple_event(tuple(c["args"])))
            elif c["typ"] == "make":
                events.append(make_event(tuple(c["args"])))
            elif c["typ"] == "factor":
                events.append(factor_event(c["n"]))
            elif c["typ"] == "like":
                events.append(like_event((c["a"], c["b"])))
            elif c["typ"] == "calls":
                events.append(calls_event(c["text"]))
        res.rule = "replay"
    send = [{k: v for k, v in e.items() if k not in ("args",)} for e in events]
    fails, st = tlc.validate_sharded("TraceTerms", "TraceTerms.cfg", send, ctx.work, shard_size=max(300, len(send) // 32 + 1))
    res.states += st["distinct"]; res.transitions += st["generated"]
    res.traces = len(events)
    res.evaluations = sum(len(e.get("answers", [1])) for e in events)
    res.distinct_nontrivial = sum(1 for e in events if e["typ"] != "factor" or e["n"] > 3)
    res.rule += " | evaluations = calls of the real utilities; non-trivial = events other than factor(1..3)"
    by = {}
    for e in events:
        by[e["typ"]] = by.get(e["typ"], 0) + 1
    drift = sum(1 for c in fails.values() if "drift_reference_answer" in c)
    res.extra.update({"validator": st, "events_by_type": by, "drift_has_like_terms_vs_reference_definition": drift})
    ce = [e for e in events if e["typ"] == "class"]
    res.samples = [{"base": ce[len(ce) // 2]["base"], "forms": FORMS, "answers": ce[len(ce) // 2]["answers"][:12]}] if ce else [events[0]]
    for eid, cl in sorted(fails.items()):
        cl = [c for c in cl if not c.startswith("drift_")]
        if not cl:
            continue
        e = events[eid - 1]
        if e["typ"] == "class":
            desc, case = "has_like_terms over the rearrangements of %s" % [FORMS[i - 1] for i in e["base"]], {"typ": "class", "base": e["base"], "members": None}
            case["members"] = [m for b, ms in [(e["base"], [])] for m in ms]
            key = "-".join(str(i) for i in sorted(set(e["base"])))
        elif e["typ"] in ("triple", "make"):
            a = e.get("args") or e["text"]
            desc, case, key = "%s %s" % (e["typ"], a), {"typ": e["typ"], "args": e.get("args"), "text": e.get("text")}, str(e["want"])
        elif e["typ"] == "factor":
            desc, case, key = "factor(%d)%s" % (e["n"], ""), {"typ": "factor", "n": e["n"]}, "n"
        elif e["typ"] == "like":
            desc, case, key = "terms_are_like(%s, %s)" % (e["a"], e["b"]), {"typ": "like", "a": e["a"], "b": e["b"]}, "%s|%s" % (e["a"], e["b"])
        else:
            desc, case, key = "predicates on %r raise %s" % (e["text"], e["raised"]), {"typ": "calls", "text": e["text"]}, ",".join(e["raised"])
        res.violations.append(Violation("C16|%s|%s|%s" % (e["typ"], ",".join(cl), key), desc + ": " + str(cl), case, cl))
    return res


def selftest(ctx):
    import copy
    ev = class_event(([2, 4, 3], [(1, (1, (0, 2, 0), (0, 4, 0)), (0, 3, 0)), (1, (0, 3, 0), (1, (0, 4, 0), (0, 2, 0)))]))
    good, _ = tlc.validate_sharded("TraceTerms", "TraceTerms.cfg", [copy.deepcopy(ev)], ctx.work)
    bad = copy.deepcopy(ev); bad["answers"][-1] = "F" if bad["answers"][-1] == "T" else "T"
    rej, _ = tlc.validate_sharded("TraceTerms", "TraceTerms.cfg", [bad], ctx.work)
    print("C16 selftest: class accepted=%s; one flipped answer rejected with %s" % (good == {}, rej.get(1)))
    return 0 if good == {} and rej.get(1) else 2
