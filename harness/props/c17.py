"""C17 - generated problems are always valid and contain what they promise.

(D) every generator is run over a parameter grid at and inside its documented ranges, in both number modes, with a
    random source whose first K draws are forced to the lowest / middle / highest admissible value (every prefix) and
    whose tail is a seeded PRNG; helpers (get_rand_vars, split_in_two_random, rand_number) likewise.
(V) TLC (TraceGen / Problems.tla / Grammar.tla) validates: the call returned, the text is derivable by the reference
    grammar (and the real parser accepted it), complexity > 0, the promised like pair is among the top-level addends
    (with the promised number of blockers in between), variable sets distinct and disjoint from exclusions, splits sum.
"""
import itertools
import random as _random

from .. import common, tlc, project, rewrite
from ..common import Result, Violation


class ForcedRandom:
    """random-module look-alike: the first len(prefix) draws are forced (lo / mid / hi), the rest seeded"""

    def __init__(self, prefix, seed):
        self.prefix = list(prefix)
        self.r = _random.Random(seed)
        self.draws = 0

    def _force(self):
        self.draws += 1
        return self.prefix.pop(0) if self.prefix else None

    def randrange(self, start, stop=None, step=1):
        if stop is None:
            start, stop = 0, start
        f = self._force()
        if f is None:
            return self.r.randrange(start, stop)
        return {"lo": start, "mid": (start + stop - 1) // 2, "hi": stop - 1}[f]

    def randint(self, a, b):
        return self.randrange(a, b + 1)

    def random(self):
        f = self._force()
        return self.r.random() if f is None else {"lo": 0.0, "mid": 0.5, "hi": 0.999999}[f]

    def uniform(self, a, b):
        f = self._force()
        return self.r.uniform(a, b) if f is None else {"lo": a, "mid": (a + b) / 2, "hi": a + (b - a) * 0.999999}[f]

    def choice(self, seq):
        f = self._force()
        return self.r.choice(seq) if f is None else {"lo": seq[0], "mid": seq[len(seq) // 2], "hi": seq[-1]}[f]

    def shuffle(self, x):
        f = self._force()
        if f is None:
            self.r.shuffle(x)
        elif f == "mid" and len(x) > 1:
            x.append(x.pop(0))
        elif f == "hi":
            x.reverse()

    def sample(self, population, k):
        self._force()
        return self.r.sample(list(population), k)

    def seed(self, *a):
        pass

    def getstate(self):
        return self.r.getstate()

    def setstate(self, s):
        self.r.setstate(s)


GENS = {
    "simplify": ("gen_simplify_multiple_terms", "like"),
    "combine": ("gen_combine_terms_in_place", "sep"),
    "haystack": ("gen_commute_haystack", "sep"),
    "blockers1": ("gen_move_around_blockers_one", "sep"),
    "blockers2": ("gen_move_around_blockers_two", "sep"),
    "binom2": ("gen_binomial_times_binomial", "none"),
    "binom1": ("gen_binomial_times_monomial", "none"),
}


def run_gen(case):
    from mathy_core import problems as P
    from mathy_core.parser import ExpressionParser
    name, args, kwargs, pretty, prefix, seed = case["gen"], case["args"], case["kwargs"], case["pretty"], case["prefix"], case["seed"]
    fn, promise = GENS[name]
    ev = {"typ": "gen", "gen": name, "buf": [], "complexity": 0, "real_ok": False, "promise": "none", "blockers": 0, "outcome": "ok"}
    # what does this call promise?
    if name == "simplify":
        op = kwargs.get("op")
        ops = op if isinstance(op, list) else [op]
        if op is not None and all(o in "+-" for o in ops) and not kwargs.get("optional_var", False):
            ev["promise"] = "like"
    elif name == "combine":
        ev["promise"], ev["blockers"] = "sep", 0
    elif name == "haystack":
        ev["promise"], ev["blockers"] = "sep", kwargs.get("commute_blockers", 1)
    elif name in ("blockers1", "blockers2"):
        ev["promise"], ev["blockers"] = "sep", args[0]
    saved = P.random
    P.random = ForcedRandom(prefix, seed)
    P.use_pretty_numbers(pretty)
    try:
        out = getattr(P, fn)(*args, **kwargs)
        text, complexity = out
        ev["text"] = text
        ev["buf"] = [ord(c) for c in text]
        ev["complexity"] = int(complexity) if isinstance(complexity, int) else -1
    except BaseException as e:  # noqa
        ev["outcome"] = type(e).__name__
        ev["msg"] = str(e)[:100]
        text = None
    finally:
        P.random = saved
        P.use_pretty_numbers(True)
    if text is not None:
        try:
            ExpressionParser().parse(text)
            ev["real_ok"] = True
        except BaseException:  # noqa
            ev["real_ok"] = False
    return ev


def run_helper(case):
    from mathy_core import problems as P
    saved = P.random
    P.random = ForcedRandom(case.get("prefix", []), case["seed"])
    try:
        if case["typ"] == "vars":
            ev = {"typ": "vars", "num": case["num"], "exclude": [ord(c) for c in case["exclude"]], "vars": [], "outcome": "ok", "should_raise": case["num"] > 25 or (not case["common"] and case["num"] > 24 - len(set(case["exclude"]) & set("abcdfghjklmnopqrstuvwxyz")))}
            try:
                ex = list(case["exclude"])
                vs = P.get_rand_vars(case["num"], ex, case["common"]) if case["num"] % 2 else P.get_rand_vars(num_vars=case["num"], exclude_vars=ex, common_variables=case["common"])
                ev["vars"] = [ord(v[0]) if isinstance(v, str) and v else 0 for v in vs]
            except BaseException as e:  # noqa
                ev["outcome"] = type(e).__name__
            return ev
        if case["typ"] == "templates":
            ev = {"typ": "templates", "num": case["num"], "keys": [], "exclude": [[ord(v), e] for v, e in case["exclude"]], "outcome": "ok"}
            try:
                # exclusions as plain templates, or (every other case) as instances of the exported subclass MathyProblemTerm
                if (case["num"] + len(case["exclude"]) + case.get("seed", 0)) % 2 and hasattr(P, "MathyProblemTerm"):
                    ex = [P.MathyProblemTerm(variable=v, exponent=(e or None)) for v, e in case["exclude"]]
                else:
                    ex = [P.MathyTermTemplate(variable=v, exponent=(e or None)) for v, e in case["exclude"]]
                ts = P.get_rand_term_templates(case["num"], exclude_like=ex, common_variables=case["common"], exponent_probability=case["ep"])
                ev["keys"] = [[ord(t.variable[0]) if t.variable else 0, int(t.exponent) if t.exponent is not None and float(t.exponent) == int(t.exponent) else (0 if t.exponent is None else -99)] for t in ts]
            except EnvironmentError:
                ev["outcome"] = "gave_up"
            except BaseException as e:  # noqa
                ev["outcome"] = type(e).__name__
            return ev
        if case["typ"] == "split":
            ev = {"typ": "split", "value": case["value"], "lower": -1, "higher": -1, "outcome": "ok"}
            try:
                lo, hi = P.split_in_two_random(case["value"])
                ev["lower"], ev["higher"] = int(lo), int(hi)
            except BaseException as e:  # noqa
                ev["outcome"] = type(e).__name__
            return ev
        if case["typ"] == "number":
            P.use_pretty_numbers(case["pretty"])
            try:
                v = P.rand_number()
                text = P.mathy_term_string(coefficient=v)
            finally:
                P.use_pretty_numbers(True)
            t = project.term(rewrite.build_const(v))
            return {"typ": "number", "buf": [ord(c) for c in text], "value": t, "text": text}
    finally:
        P.random = saved


def prefixes(k):
    return [list(p) for n in range(k + 1) for p in itertools.product(["lo", "mid", "hi"], repeat=n)] if k else [[]]


def domain(ctx):
    q = ctx.quick
    seeds = range(12 if q else 200)
    grid = []
    for nt in ([2, 3, 4, 6, 9, 10, 12, 18, 26] if q else list(range(2, 21)) + [26, 40]):
        for op in (None, "+", ["+", "-"]):
            for ov in (False, True):
                grid.append(("simplify", [nt], {"op": op, "optional_var": ov}))
        grid.append(("simplify", [nt], {"op": "+", "noise_probability": 1.0, "noise_terms": 5, "shuffle_probability": 1.0}))
        grid.append(("simplify", [nt], {"op": ["+", "-"], "noise_probability": 0.0, "share_var_probability": 1.0, "powers_probability": 1.0}))
        grid.append(("simplify", [nt], {"op": "-", "grouping_noise_probability": 1.0, "share_var_probability": 0.0, "noise_terms": 0}))
        grid.append(("simplify", [nt], {"op": "+", "common_variables": False, "noise_terms": 1, "powers_probability": 0.0}))
        grid.append(("simplify", [nt], {"op": "+", "noise_probability": 1.0, "noise_terms": 6}))
        grid.append(("simplify", [nt], {"op": ["+", "-"], "noise_probability": 1.0, "noise_terms": 10, "share_var_probability": 1.0}))
    for lo, hi in [(16, 26), (2, 2), (2, 5), (3, 12), (24, 25), (25, 25), (26, 26), (10, 20)]:
        for easy in (True, False):
            for powers in (False, True):
                grid.append(("combine", [], {"min_terms": lo, "max_terms": hi, "easy": easy, "powers": powers}))
    grid.append(("combine", [], {}))
    for lo, hi in [(5, 8), (3, 3), (3, 12), (12, 12)]:
        for cb in (1, 2, 3):
            for easy in (True, False):
                for powers in (False, True):
                    grid.append(("haystack", [], {"min_terms": lo, "max_terms": hi, "commute_blockers": cb, "easy": easy, "powers": powers}))
    grid.append(("haystack", [], {}))
    for nb in (1, 2, 3, 4, 5):
        for pp in (0.0, 0.5, 1.0):
            grid.append(("blockers1", [nb], {"powers_probability": pp}))
            grid.append(("blockers2", [nb], {"powers_probability": pp}))
    for g, maxv in (("binom2", 4), ("binom1", 3)):
        for lo, hi in [(1, 2), (1, 1), (2, 2), (1, maxv), (maxv, maxv)]:
            for sv in (True, False):
                for pp in (0.0, 0.33, 1.0):
                    for lv in (0.0, 1.0):
                        grid.append((g, [], {"min_vars": lo, "max_vars": hi, "simple_variables": sv, "powers_probability": pp, "like_variables_probability": lv}))
        grid.append((g, [], {}))
    cases = []
    k = 3 if q else 5
    for name, args, kwargs in grid:
        for pretty in (True, False):
            for seed in seeds:
                cases.append({"gen": name, "args": args, "kwargs": kwargs, "pretty": pretty, "prefix": [], "seed": seed})
    # terms that may lose their variable (optional_var) consist of a drawn number only: the rare draws (a zero, a decimal that is cut to 0.0)
    # need many more seeds in the non-pretty mode than the other settings
    for nt in ([4, 12, 18] if q else [4, 8, 12, 18, 26]):
        for op in ("+", ["+", "-"], None):
            for ovp in (0.5, 0.15):
                for seed in range(100, 100 + (70 if q else 600)):
                    cases.append({"gen": "simplify", "args": [nt], "kwargs": {"op": op, "optional_var": True, "optional_var_probability": ovp}, "pretty": False, "prefix": [], "seed": seed})
    # forced draw prefixes on the default / representative parameter settings
    reps = [("simplify", [4], {"op": "+"}), ("simplify", [3], {"op": ["+", "-"]}), ("simplify", [3], {"op": "+", "optional_var": True, "optional_var_probability": 1.0}), ("combine", [], {}), ("combine", [], {"min_terms": 2, "max_terms": 6, "powers": True}),
            ("haystack", [], {}), ("blockers1", [2], {}), ("blockers2", [2], {}), ("binom2", [], {}), ("binom1", [], {})]
    for name, args, kwargs in reps:
        for pf in prefixes(k):
            for pretty in (True, False):
                cases.append({"gen": name, "args": args, "kwargs": kwargs, "pretty": pretty, "prefix": pf, "seed": 7})
    helpers = []
    for num in list(range(0, 25)) + [26, 30]:
        # hold-outs from the pool, and hold-outs that are not in the pool at all (e, i are never generated): those take nothing away
        for ex in ("", "x", "xyzab", "abcdf", "ei", "xei", "eiEI2", "xyei"):
            for seed in range(3 if q else 30):
                if len(ex) > 2 and ex not in ("xyzab", "abcdf") and num < 18 and seed > 0:
                    continue
                helpers.append({"typ": "vars", "num": num, "exclude": ex, "common": False, "seed": seed})
    for num in (0, 1, 2, 3):
        for ex in ("", "x"):
            if num + len(ex) <= 3:
                helpers.append({"typ": "vars", "num": num, "exclude": ex, "common": True, "seed": 1})
    for num in (1, 2, 3):
        for common in (True, False):
            for ex in ([], [("x", 2)], [("x", 2), ("y", 2), ("z", 2)], [("x", 0), ("y", 0)]):
                for ep in (0.5, 1.0):
                    for pf in prefixes(4 if q else 6):
                        if not common and len(pf) > 3:
                            continue
                        helpers.append({"typ": "templates", "num": num, "common": common, "exclude": ex, "ep": ep, "prefix": pf, "seed": len(pf)})
    for v in range(0, 61):
        for pf in prefixes(1):
            helpers.append({"typ": "split", "value": v, "prefix": pf, "seed": v})
    for pretty in (True, False):
        for pf in prefixes(3 if q else 4):
            helpers.append({"typ": "number", "pretty": pretty, "prefix": pf, "seed": 3})
        for seed in range(60 if q else 2000):
            helpers.append({"typ": "number", "pretty": pretty, "prefix": [], "seed": seed})
    rule = ("%d generator parameter settings (term counts 2..26, blockers 1..5, probabilities 0/.33/.5/1, options easy/powers/simple_variables/optional_var/op) x both number modes x "
            "seeds 0..%d; every forced draw prefix of length <= %d (lowest / middle / highest admissible value per draw) on 9 representative settings x both modes; "
            "get_rand_vars for 0..24 and >25 variables (a request that exceeds the allowed pool must be refused, any other fulfilled) with 4 exclusion lists; split_in_two_random(0..60) with forced draws; get_rand_term_templates (1..3 templates, exclusion lists, every forced draw prefix); rand_number in both modes"
            % (len(grid), len(seeds) - 1, k))
    return cases, helpers, rule


def sig(ev, case, cl):
    if ev["typ"] == "gen":
        kw = ",".join("%s=%s" % (a, b) for a, b in sorted(case["kwargs"].items())) if ev["outcome"] != "ok" else ""
        return "C17|%s|%s|%s" % (",".join(cl), ev["gen"], kw if "generator_raises" in cl else ("pretty" if case["pretty"] else "nonpretty"))
    return "C17|%s|%s" % (",".join(cl), ev["typ"])


def run(ctx, cases=None):
    res = Result()
    if cases is None:
        gcases, helpers, res.rule = domain(ctx)
    else:
        gcases = [c for c in cases if "gen" in c]
        helpers = [c for c in cases if "typ" in c]
        res.rule = "replay"
    from ..common import Pool
    with Pool(16) as pool:
        events = pool.map(run_gen, gcases, chunksize=100) + pool.map(run_helper, helpers, chunksize=100)
    allcases = gcases + helpers
    send = [{k: v for k, v in e.items() if k not in ("text", "msg")} for e in events]
    fails, st = tlc.validate_sharded("TraceGen", "TraceGen.cfg", send, ctx.work, shard_size=max(300, len(send) // 48 + 1), timeout=2400)
    res.states += st["distinct"]; res.transitions += st["generated"]
    res.traces = len(events)
    res.evaluations = len(events)
    res.distinct_nontrivial = len({e.get("text", str(e)) for e in events})
    res.rule += " | non-trivial = distinct outputs"
    drift = sum(1 for c in fails.values() if "drift_reference_grammar_disagrees" in c)
    res.extra.update({"validator": st, "generator_calls": len(gcases), "helper_calls": len(helpers), "drift_grammar": drift,
                      "max_text_length": max((len(e.get("text", "")) for e in events), default=0)})
    res.samples = [{"gen": e["gen"], "text": e.get("text"), "complexity": e["complexity"]} for e in events[: len(gcases)][:: max(1, len(gcases) // 4)][:4]]
    res.assumptions = ["the for-all over seeds is explored, not exhausted; the generators' internals are not transcribed",
                       "gen_simplify_multiple_terms promises like terms only when op is restricted to + / - and optional_var is False"]
    for eid, cl in sorted(fails.items()):
        cl = [c for c in cl if not c.startswith("drift_")]
        if not cl:
            continue
        e, c = events[eid - 1], allcases[eid - 1]
        res.violations.append(Violation(sig(e, c, cl), "%s -> %s %r: %s" % ({k: v for k, v in c.items() if k not in ("prefix",)}, e.get("outcome"), e.get("text", e.get("msg", "")), cl), c, cl))
    return res


def selftest(ctx):
    import copy
    ev = run_gen({"gen": "blockers1", "args": [2], "kwargs": {}, "pretty": True, "prefix": [], "seed": 1})
    send = {k: v for k, v in ev.items() if k not in ("text", "msg")}
    good, _ = tlc.validate_sharded("TraceGen", "TraceGen.cfg", [copy.deepcopy(send)], ctx.work)
    bad = copy.deepcopy(send); bad["blockers"] = 1
    rej, _ = tlc.validate_sharded("TraceGen", "TraceGen.cfg", [bad], ctx.work)
    print("C17 selftest: %r accepted=%s; with a wrong blocker count rejected with %s" % (ev["text"], good == {}, rej.get(1)))
    return 0 if good == {} and rej.get(1) else 2
