"""C18 - tree layout satisfies the tidy-tree invariants and is repeatable.

(D) every binary-tree shape up to the bound is built as plain nodes and as expression-shaped nodes and laid out with
    the real TreeLayout under three unit-multiplier pairs: first call, second call on the same nodes, and a freshly
    built mirrored tree.
(V) TLC (TraceLayout / Layout.tla) validates each clause on the recorded coordinates: y = depth * unit, children
    strictly left / right, parent centred over two children, level order with at least one unit between neighbours,
    reported bounds = true bounding box, second call identical, mirrored tree mirrored.
"""
import random
from .. import common, tlc, project, shapes
from ..common import Result, Violation
from .c14 import tuple_shape, random_shape

MULTS = [(1.0, 1.0), (2.0, 1.0), (0.5, 3.0)]


def preorder(root):
    out = []

    def go(n):
        if n is None:
            return
        out.append(n)
        go(n.left)
        go(n.right)
    go(root)
    return out


def scaled(v):
    s = v * 1024
    return int(round(s)), abs(s - round(s)) < 1e-9


def measure_rec(m):
    vals = {}
    ok = True
    for k in ("minX", "maxX", "minY", "maxY", "width", "height"):
        vals[k], e = scaled(getattr(m, k))
        ok = ok and e
    return vals, ok


def make_event(case):
    from mathy_core.layout import TreeLayout
    s = tuple_shape(case["shape"])
    ux, uy = case["mult"]
    try:
        root = shapes.build(s, case["cls"])
    except BaseException as e:  # noqa
        return {"h": {"n": 0}, "root": 0, "ux": 0, "uy": 0, "outcome": "constructing the tree raised " + type(e).__name__, "exact": True, "X": [], "Y": [], "X2": [], "Y2": [],
                "XM": [], "YM": [], "m": {}, "m2": {}, "mirror_ok": True, "ynd": True}
    objs = project.ObjTable()
    for n in preorder(root):
        objs.of(n)
    h = project.snapshot(objs, payload=False)
    if case.get("embed"):
        # the same shape as a SUBTREE of a larger tree: layout() is called on a node that has a parent (and a sibling); the
        # structure above is taken from the stand-alone build, the coordinates from the embedded nodes (same pre-order)
        try:
            filler = shapes.build(((None, None), None), case["cls"])
            sub = shapes.build(s, case["cls"])
            host = shapes.build((None, None), case["cls"])
            if case["embed"] == "L":
                host.set_left(sub); host.set_right(filler)
            else:
                host.set_left(filler); host.set_right(sub)
            root = sub
            objs = project.ObjTable()
            for n in preorder(root):
                objs.of(n)
        except BaseException as e:  # noqa
            return {"h": {"n": 0}, "root": 0, "ux": 0, "uy": 0, "outcome": "constructing the tree raised " + type(e).__name__, "exact": True, "X": [], "Y": [], "X2": [], "Y2": [],
                    "XM": [], "YM": [], "m": {}, "m2": {}, "mirror_ok": True, "ynd": True}
    ev = {"h": h, "root": 1, "ux": scaled(ux)[0], "uy": scaled(uy)[0], "outcome": "ok", "exact": True,
          "X": [], "Y": [], "X2": [], "Y2": [], "XM": [], "YM": [], "m": {}, "m2": {}, "mirror_ok": True}
    try:
        exact = True

        def coords(nodes):
            nonlocal exact
            xs, ys = [], []
            for n in nodes:
                a, e1 = scaled(n.x)
                b, e2 = scaled(n.y)
                exact = exact and e1 and e2
                xs.append(a); ys.append(b)
            return xs, ys
        # one layout object is used for everything (as a drawing widget would); each measurement is read only AFTER the same
        # object has laid out another, differently sized tree: what was reported for a tree stays what it was
        L = TreeLayout()
        decoy = shapes.build((((None, None), None), (None, None)), "btn")
        kw = common.pick(str(case.get("shape")), 2)
        m = L.layout(root, unit_x_multiplier=ux, unit_y_multiplier=uy) if kw else L.layout(root, ux, uy)
        ev["X"], ev["Y"] = coords(objs.keep)
        L.layout(decoy, 3.0, 2.0)
        ev["m"], e = measure_rec(m); exact = exact and e
        m2 = L.layout(root, ux, uy)
        ev["X2"], ev["Y2"] = coords(objs.keep)
        L.layout(decoy)
        ev["m2"], e = measure_rec(m2); exact = exact and e
        # units that are not exactly representable (0.1, 0.7; 1/3, 3.3): the row of a node is its depth times the unit - the very
        # float product, not a running sum that drifts in the last bit - and the reported vertical bounds are those rows
        ev["ynd"] = True
        if case.get("nd", True) and len(objs) <= 60:
            depth = {}

            def dep(n, d):
                if n is None:
                    return
                depth[id(n)] = d
                dep(n.left, d + 1)
                dep(n.right, d + 1)
            for nux, nuy in ((0.1, 0.7), (1 / 3, 3.3)):
                froot = shapes.build(s, case["cls"])
                dep(froot, 0)
                mm = TreeLayout().layout(froot, nux, nuy)
                ys = [(n.y, depth[id(n)] * nuy) for n in preorder(froot)]
                if any(a != b for a, b in ys) or mm.maxY != max(b for _, b in ys) or mm.minY != 0 or mm.height != mm.maxY - mm.minY:
                    ev["ynd"] = False
        # mirrored tree, built fresh; node k (pre-order of the original) <-> its mirror image
        mroot = shapes.build(shapes.mirror(s), case["cls"])
        pairs = {}

        def match(a, b):
            if a is None or b is None:
                return
            pairs[id(a)] = b
            match(a.left, b.right)
            match(a.right, b.left)
        match(root, mroot)
        TreeLayout().layout(mroot, ux, uy)
        ev["XM"], ev["YM"] = coords([pairs[id(n)] for n in objs.keep])
        ev["exact"] = exact
    except BaseException as e:  # noqa
        ev["outcome"] = type(e).__name__
    return ev


def canon(s):
    return "." if s is None else "(%s%s)" % (canon(s[0]), canon(s[1]))


def subshapes(s):
    if s is None:
        return []
    return [s] + subshapes(s[0]) + subshapes(s[1])


def random_full_shape(rng, leaves):
    if leaves <= 1:
        return (None, None)
    k = rng.randint(1, leaves - 1)
    return (random_full_shape(rng, k), random_full_shape(rng, leaves - k))


def fixed_family(count):
    """a FIXED family of larger shapes (the same under every seed, a prefix for smaller counts): 11..48 nodes, half of them full
    binary trees, half with one-child nodes. Being fixed, every (clause, shape) the pinned tree fails on them is listed with the
    known finding, so these shapes are judged like the exhaustively explored ones."""
    rng = random.Random(20261003)
    out = []
    for k in range(count):
        if k % 2 == 0:
            out.append(random_full_shape(rng, rng.randint(6, 24)))
        else:
            out.append(random_shape(rng, rng.randint(11, 48)))
    return out


def domain(ctx):
    n = 10
    rng = random.Random(ctx.seed * 29 + 3)
    cases = []
    for s in shapes.shapes_upto(n):
        for mi, mult in enumerate(MULTS):
            if mi > 0 and (shapes.size(s) > 5):
                continue
            cases.append({"shape": s, "cls": "btn", "mult": mult})
        if shapes.size(s) <= (7 if ctx.quick else 8):
            cases.append({"shape": s, "cls": "expr", "mult": (1.0, 1.0)})
    # beyond the general bound: every FULL binary tree (0 or 2 children) with 11, 13 (and 15 in thorough) nodes
    for m in ([11, 13] if ctx.quick else [11, 13, 15]):
        for s in shapes.full_shapes(m):
            cases.append({"shape": s, "cls": "btn", "mult": (1.0, 1.0), "full": True})
    for _ in range(150 if ctx.quick else 3000):
        cases.append({"shape": random_shape(rng, rng.randint(n + 1, 18)), "cls": rng.choice(["btn", "expr"]), "mult": rng.choice(MULTS)})
    for s in shapes.shapes_upto(6 if ctx.quick else 8):
        if shapes.size(s) >= 1:
            for side in ("L", "R"):
                cases.append({"shape": s, "cls": "btn", "mult": (1.0, 1.0) if shapes.size(s) > 4 else (2.0, 1.0), "embed": side})
                if 2 <= shapes.size(s) <= 5:
                    cases.append({"shape": s, "cls": "expr", "mult": (1.0, 1.0), "embed": side})
    for k, s in enumerate(fixed_family(300 if ctx.quick else 2000)):
        cases.append({"shape": s, "cls": "btn", "mult": (1.0, 1.0), "fixed": True, "embed": "LR"[k % 2]})
    nfixed = 2500 if ctx.quick else 12000
    for s in fixed_family(nfixed):
        cases.append({"shape": s, "cls": "btn", "mult": (1.0, 1.0), "fixed": True})
    return cases, ("every shape <= %d nodes also as the left / right subtree of a larger tree (layout called on a node that has a parent); " % (6 if ctx.quick else 8)) + ("a fixed family of %d larger shapes (11..48 nodes, half full binary trees, half with one-child nodes); " % nfixed) + ("all full binary trees with 11, 13%s nodes; all %d shapes with <= %d nodes as plain nodes (three multiplier pairs up to 5 nodes) and as expression-shaped nodes; seeded random shapes up to 18 nodes; "
                   "first call, second call, fresh mirrored tree" % ("" if ctx.quick else ", 15", len(shapes.shapes_upto(n)), n))


def run(ctx, cases=None):
    res = Result()
    if cases is None:
        # model level: the invariants are satisfiable - the reference layout of Layout.tla meets every clause on every shape
        model = tlc.run("MC_Layout", "MC_Layout_quick.cfg" if ctx.quick else "MC_Layout_thorough.cfg", ctx.work, workers=8, timeout=1500)
        res.add_tlc(model, "reference layout")
        if not model.ok():
            raise tlc.TLCError("the reference layout violates %s\n%s" % (model.violated, model.out[-1500:]))
        cases, res.rule = domain(ctx)
        res.exhaustive = True
    else:
        for c in cases:
            c["mult"] = tuple(c["mult"])
        res.rule = "replay"
    from ..common import Pool
    with Pool(16) as pool:
        events = pool.map(make_event, cases, chunksize=50)
    fails, st = tlc.validate_sharded("TraceLayout", "TraceLayout.cfg", events, ctx.work, shard_size=max(200, len(events) // 32 + 1))
    res.states += st["distinct"]; res.transitions += st["generated"]
    res.traces = len(events)
    res.evaluations = 3 * len(events)
    res.distinct_nontrivial = len({(canon(tuple_shape(c["shape"])), c["cls"], c["mult"]) for c in cases if shapes.size(tuple_shape(c["shape"])) >= 3})
    res.rule += " | evaluations = layout calls; non-trivial = distinct (shape, node class, multipliers) with >= 3 nodes"
    k = len(events) // 2
    res.samples = [{"shape": canon(tuple_shape(cases[k]["shape"])), "mult": cases[k]["mult"], "X*4": events[k]["X"], "Y*4": events[k]["Y"], "bounds*4": events[k]["m"]}]
    res.extra["validator"] = st
    # signature: clause + the shape itself (layout depends on the shape only). Shapes beyond the exhaustively
    # explored size cannot be matched against the committed list of known-failing shapes, so for the clauses
    # that are under a known finding they are not judged there (counted below).
    bound = 10
    failing = {}
    beyond = 0
    for eid, cl in sorted(fails.items()):
        c = cases[eid - 1]
        s = tuple_shape(c["shape"])
        for x in cl:
            failing[x] = failing.get(x, 0) + 1
            if x.startswith("drift_"):
                continue
            if shapes.size(s) > bound and x in KNOWN_CLAUSES and not (c.get("full") and shapes.size(s) <= 15) and not c.get("fixed"):
                beyond += 1
                continue
            res.violations.append(Violation("C18|%s|%s" % (x, canon(s)), "layout of %s shape %s%s x%s: %s" % (c["cls"], canon(s), " as the %s subtree of a larger tree" % c["embed"] if c.get("embed") else "", c["mult"], x),
                                            {"shape": c["shape"], "cls": c["cls"], "mult": list(c["mult"]), "full": bool(c.get("full")), "fixed": bool(c.get("fixed")), "embed": c.get("embed", "")}, [x]))
    res.extra["failing_cases_by_clause"] = failing
    res.extra["known_clause_failures_beyond_exhaustive_bound_not_judged"] = beyond
    return res


KNOWN_CLAUSES = {"left_child_left", "right_child_right", "level_order_and_separation", "mirrored_tree_not_mirrored"}


def selftest(ctx):
    import copy
    ev = make_event({"shape": ((None, None), (None, None)), "cls": "btn", "mult": (1.0, 1.0)})
    good, _ = tlc.validate_sharded("TraceLayout", "TraceLayout.cfg", [copy.deepcopy(ev)], ctx.work)
    bad = copy.deepcopy(ev); bad["X"][1] += 4; bad["X2"][1] += 4
    rej, _ = tlc.validate_sharded("TraceLayout", "TraceLayout.cfg", [bad], ctx.work)
    print("C18 selftest: 3-node tree accepted=%s; a shifted child rejected with %s" % (good == {}, rej.get(1)))
    return 0 if good == {} and rej.get(1) else 2
