"""X01 - extra coverage beyond the listed properties (not in MANIFEST.checks): MathML well-nestedness, terminal_text,
classes, TokenSet algebra and FIRST sets, rule names/codes, pad_array, truncate.  Spec: Misc.tla / TraceMisc.tla."""
import random
import re

from .. import common, tlc, rewrite, parsefam
from ..common import Result, Violation

LEVEL = "other"
ANSI = re.compile(r"\x1b\[[0-9;]*m")


def tags_of(xml):
    evs = []
    for m in re.finditer(r"<(/?)([A-Za-z]+)[^>]*?(/?)>", xml):
        if m.group(3):
            evs.append(["o", m.group(2)]); evs.append(["c", m.group(2)])
        else:
            evs.append(["c" if m.group(1) else "o", m.group(2)])
    return evs


def tree_events(text):
    from mathy_core import expressions as E
    out = []
    try:
        t = rewrite.parse(text).clone()
    except BaseException:  # noqa
        return out
    nodes = rewrite.inorder(t)
    def depth(n):
        return 0 if n is None else 1 + max(depth(n.left), depth(n.right))
    if len(nodes) > 40 or depth(t) > 9:
        return out          # (to_math_ml of a deep product takes exponential time in the pinned code; see DESIGN.md section 11 #13)
    try:
        xml = t.to_math_ml()
        out.append({"typ": "mathml", "text": text, "tags": tags_of(xml), "nconst": sum(isinstance(n, E.ConstantExpression) for n in nodes),
                    "nvar": sum(isinstance(n, E.VariableExpression) for n in nodes)})
    except BaseException as e:  # noqa
        out.append({"typ": "mathml", "text": text, "tags": [["c", "raised:" + type(e).__name__]], "nconst": 0, "nvar": 0})
    # terminal_text on the result of each applicable rule (changed nodes) and on the untouched tree
    trees = [("plain", t, 0)]
    for name, opt, rule in rewrite.rules():
        for k, n in enumerate(rewrite.inorder(t)):
            try:
                if rule.can_apply_to(n):
                    r = rule.apply_to(n.clone_from_root()).result.get_root()
                    trees.append((name, r, sum(1 for x in rewrite.inorder(r) if getattr(x, "_changed", False))))
                    break
            except BaseException:  # noqa
                pass
    for label, tr, changed in trees[:4]:
        try:
            before = sum(1 for x in rewrite.inorder(tr) if getattr(x, "_rendering_change", False))
            tt = tr.terminal_text
            after = sum(1 for x in rewrite.inorder(tr) if getattr(x, "_rendering_change", False))
            out.append({"typ": "terminal", "text": text, "label": label, "stripped": ANSI.sub("", tt), "plain": str(tr), "flags_before": before, "flags_after": after,
                        "changed": changed, "coloured": bool(ANSI.search(tt))})
        except BaseException as e:  # noqa
            out.append({"typ": "terminal", "text": text, "label": label, "stripped": "raised:" + type(e).__name__, "plain": "", "flags_before": 0, "flags_after": 0, "changed": changed, "coloured": False})
    n0 = nodes[len(nodes) // 2]
    before = list(n0.classes)
    added = ["hot", "hot", before[0] if before else "z", "cold"]
    n0.add_class(added)
    n0.add_class("single")
    after_add = list(n0.classes)
    t.clear_classes()
    out.append({"typ": "classes", "text": text, "before": before, "added": added + ["single"], "after_add": after_add,
                "after_clear_total": sum(len(x.classes) for x in rewrite.inorder(t))})
    return out


def static_events(seed):
    from mathy_core import parser as PR
    from mathy_core.parser import TokenSet
    from mathy_core.util import pad_array
    from mathy_core.problems import truncate
    rng = random.Random(seed)
    out = []
    for _ in range(300):
        a, b = rng.randrange(1 << 15), rng.randrange(1 << 15)
        ts = TokenSet(a).add(b)
        probes = [rng.randrange(1, 1 << 15) for _ in range(6)] + [1 << rng.randrange(15) for _ in range(6)]
        out.append({"typ": "tokenset", "a": a, "b": b, "sum": ts.tokens, "probe": [[p, bool(ts.contains(p))] for p in probes]})
    out.append({"typ": "first", "fn": PR._FIRST_FUNCTION.tokens, "factor": PR._FIRST_FACTOR.tokens & ~(1 << 7), "prefix": PR._FIRST_FACTOR_PREFIX.tokens & ~(1 << 7),
                "unary": PR._FIRST_UNARY.tokens & ~(1 << 7), "exp": PR._FIRST_EXP.tokens & ~(1 << 7), "mult": PR._FIRST_MULT.tokens & ~(1 << 7), "add": PR._FIRST_ADD.tokens & ~(1 << 7)})
    rs = [r for _, _, r in rewrite.rules()]
    byclass = {}
    for r in rs:
        byclass[type(r).__name__] = r
    out.append({"typ": "rules", "names": [r.name for r in byclass.values()], "codes": [r.code for r in byclass.values()], "codelens": [len(r.code) for r in byclass.values()]})
    for _ in range(200):
        inp = [rng.randrange(9) for _ in range(rng.randrange(0, 7))]
        n, v = rng.randrange(0, 10), rng.randrange(100, 110)
        lst = list(inp)
        res = pad_array(lst, n, v)
        out.append({"typ": "pad", "inp": inp, "n": n, "v": v, "out": list(res), "same_object": res is lst})
    for _ in range(300):
        k = rng.randrange(0, 4)
        val = rng.randrange(-5000000, 5000000)          # value scaled by 10^6, i.e. up to 5.0 with 6 decimals
        r = truncate(val / 1e6, k)
        out.append({"typ": "truncate", "k": k, "val": val, "res": int(round(r * 1e6))})
    return out


def run(ctx, cases=None):
    res = Result()
    texts = parsefam.CURATED[:60] + rewrite.FORMS[:60] + rewrite.EQ_FORMS[:20] + rewrite.test_json_inputs()
    texts = [t for t in texts if not re.search(r"\d{13,}", t)]      # (asking the factoring rule about 10^13 .. 2^64 takes minutes: KF-C06-factor-bigint)
    from ..common import Pool
    with Pool(16) as pool:
        events = [e for l in pool.map(tree_events, texts, chunksize=10) for e in l]
    events += static_events(ctx.seed)
    send = [{k: v for k, v in e.items() if k not in ("text", "label")} for e in events]
    fails, st = tlc.validate_sharded("TraceMisc", "TraceMisc.cfg", send, ctx.work, shard_size=max(300, len(send) // 16 + 1))
    res.states += st["distinct"]; res.transitions += st["generated"]
    res.traces = len(events); res.evaluations = len(events)
    res.distinct_nontrivial = len(events)
    res.rule = "MathML / terminal_text / classes on %d trees; TokenSet algebra, FIRST sets, rule names and codes, pad_array, truncate (seeded)" % len(texts)
    res.samples = [{k: v for k, v in events[0].items() if k != "tags"}]
    res.extra["explanation"] = "extra specification coverage beyond C01..C18 (Misc.tla); not registered as a property check"
    res.extra["events_by_type"] = {t: sum(1 for e in events if e["typ"] == t) for t in sorted({e["typ"] for e in events})}
    for eid, cl in sorted(fails.items()):
        e = events[eid - 1]
        res.violations.append(Violation("X01|%s|%s" % (",".join(cl), e["typ"]), "%s %s: %s" % (e["typ"], e.get("text", ""), cl), {"typ": e["typ"], "text": e.get("text")}, cl))
    return res


def selftest(ctx):
    evs = tree_events("4x + 2")
    send = [{k: v for k, v in e.items() if k not in ("text", "label")} for e in evs]
    good, _ = tlc.validate_sharded("TraceMisc", "TraceMisc.cfg", send, ctx.work)
    import copy
    bad = copy.deepcopy(send[0]); bad["tags"] = bad["tags"][:-2] + [bad["tags"][-1]]
    rej, _ = tlc.validate_sharded("TraceMisc", "TraceMisc.cfg", [bad], ctx.work)
    print("X01 selftest: accepted=%s; a dropped closing tag rejected with %s" % (good == {}, rej.get(1)))
    return 0 if good == {} and rej.get(1) else 2
