"""Registry of checks -> MANIFEST.json.  Run: /venv/bin/python -m harness.registry"""
import json
import os

ROOT = os.path.dirname(os.path.dirname(os.path.abspath(__file__)))

TB = ("TLC 1.8 (explicit-state) evaluating the TLA+ specification under /verif/spec; the Python projection of real "
      "objects to abstract state (harness/project.py); CPython; bounds stated in the evidence.")

CHECKS = {
    "C11": dict(
        text="TLC model-checks the tokenizer state machine (Tokenizer.tla) against the C11 invariants over all strings up to the bound, "
             "and every call of the real Tokenizer over the same domain (both padding modes, two function tables) is trace-validated "
             "by TLC against that specification (token list equals the machine's; relational clauses lossless / classes / one EOF / "
             "drop-padding / reject evaluated on the observation). Exhaustive small-scope + seeded random beyond.",
        technique="TLA+ state machine + TLC exhaustive model checking; TLC trace validation of recorded tokenizer calls",
        ref="5/C11"),
    "C01": dict(
        text="Rules.tla states the relational contract of one rewrite step over pointer-level heaps and their terms; Expr.tla gives the independent exact "
             "semantics. Every rule instance (11) is applied by the real code at every node where the real can_apply_to is true, on clones-from-root of "
             "TLC-emitted grammar sentences, term-level trees in every grouping, embeddings, the repo's own examples and generator outputs; TLC validates each "
             "recorded step: the whole expression (the '='-free side for equations) has the same value at 12 assignments in two prime fields wherever both are defined.",
        technique="TLA+ step contract + exact field semantics; TLC trace validation of every applicable (tree, rule, option, node) step",
        ref="5/C01"),
    "C02": dict(
        text="Same step traces on equations (addends at top level and inside products, quotients, powers, negations, subtrahends, function arguments; zero and unit "
             "coefficients; one and two variables). TLC decides SameSolutions by enumerating the complete solution sets over F_31, F_37, F_101 (one variable) or "
             "F_13^2 and F_17^2 (two variables), and rejects a balanced move that creates a division by the literal 0.",
        technique="TLA+ step contract; complete solution sets over small prime fields computed by TLC on recorded steps",
        ref="5/C02"),
    "C04": dict(
        text="For every tree the parser produces from a TLC-emitted sentence (with operand variants) and for the result of every recorded rewrite step, the real "
             "str() output is parsed back by the real parser and TLC validates: it parses, has the same value (solution set for equations) and the same variables.",
        technique="TLC trace validation of print/re-parse round trips against the exact field semantics",
        ref="5/C04"),
    "C05": dict(
        text="EvalBig.tla states the evaluation contract with three independent views computed by TLC: the exact value of integer-pure trees in arbitrary-precision limb "
             "arithmetic (BigInt.tla, self-checked against TLC's native arithmetic at start-up), the exact small rational with NaN for trees through division or decimals, and "
             "the error contract (absent / None variable, unequal equation). Trees over operands from 0 to 10^20 (literals and bindings), powers up to exponent 70, factorials "
             "up to 25!, zero divisors behind zero factors, 13 shapes x 9 partial contexts are evaluated by the real code and every observed typed result is validated by TLC.",
        technique="TLA+ exact-arithmetic evaluation contract (limb big integers, rationals, NaN, errors); TLC trace validation of evaluate() results",
        ref="5/C05",
        note=TB + " Float results are judged only when the exact value is a small rational (within 4 ulp); transcendental powers are not judged."),
    "C06": dict(
        text="Probe traces (can_apply_to on every node twice with heap snapshots around, find_nodes with r_index of every node, find_node) and step traces for every "
             "rule instance over a broad start set; TLC validates: asking does not change any pointer or payload, answers are repeatable, find_nodes is exactly the "
             "applicable nodes in in-order with their indices recorded, find_node is the first, and every applicable step completes and yields an expression.",
        technique="TLA+ probe/step contract; TLC trace validation of applicability probes and applications",
        ref="5/C06"),
    "C07": dict(
        text="Step traces with embedding contexts (start trees placed under + - * / ^ neg sgn and as equation sides); heaps are projected over one object universe "
             "(source tree, working clone, new nodes). TLC validates: result links consistent, arity by kind, no node object twice, root without parent; sibling subtrees "
             "off the path to the rewritten node's parent identical; variable set unchanged; the source tree pointer- and payload-identical; no node shared with it.",
        technique="TLA+ heap well-formedness + context contract; TLC trace validation of before/after heaps",
        ref="5/C07"),
    "C16": dict(
        text="TLC (MC_Terms) generates every rearrangement class - all orderings x groupings of each multiset of addends, closed under the AC moves, bag invariant checked - "
             "and each member is built by parsing and by constructors for has_like_terms; TLC validates one answer per class, reflexivity/symmetry of terms_are_like on recognised "
             "terms, get_term_ex of the parsed text of every (c, v, e) triple, make_term's value c*v^e by exact field evaluation and its decomposition, factor(n) = divisor pairs, "
             "and that no term predicate raises on non-equation trees.",
        technique="TLC-generated AC-rearrangement classes replayed into the code; TLC trace validation of term utilities against the reference term algebra",
        ref="5/C16"),
    "C03": dict(
        text="The documented grammar is written as a reference parser in TLA+ (Grammar.tla, from the docs and the property text, not from the code). "
             "TLC explores it over all token strings up to the bound (operand-order, kinds-only and variable lemmas) and emits every sentence; all token "
             "strings up to a smaller bound, all emitted sentences (three renderings, operand substitutions incl. 0/1/decimals/20-digit literals), "
             "curated and random texts are parsed by the real parser (fresh parser; the same text twice) and TLC validates each recorded call: accepted iff "
             "derivable; value equal to the reference AST's at 12 assignments in two prime fields (equations: complete solution sets over small fields); "
             "operands kept in order; variables equal.",
        technique="TLA+ reference grammar + exact field semantics; TLC exhaustive token strings; TLC trace validation of real parse calls",
        ref="5/C03"),
    "C08": dict(
        text="Schemas.tla writes each rule's documented transformation as schemas (from rules/*.md, the docstrings and the property): documented forms x coefficients "
             "{absent,2,-3,1/2,12} x variables x exponents {absent,2,3,-1,1/2,0} x up to 13 surrounding contexts, with the documented result and the documented refusals. TLC "
             "instantiates them (~17k instances) and writes them out; each is built through the public constructors and replayed into the real rule; TLC validates accepted/refused, "
             "that the rule did something, and the result's shape - exactly, up to AC of + and * (bag-normal forms), or as (p'+q') * k u^n with k p' = p, k q' = q - and that every "
             "documented result means the same as its input.",
        technique="TLA+ transformation schemas instantiated by TLC and replayed into the code; TLC trace validation up to AC-normal forms",
        ref="5/C08, Appendix B"),
    "C09": dict(
        text="Session.tla is the state machine of a rewriting session (start, current term, exactness) whose step relation is the relational contract. Real sessions "
             "with one persistent set of rule objects - every two-step script from 50 seed expressions/equations and seeded random walks of up to 30 steps, each step on "
             "node.clone_from_root() of the current root - are recorded with the session's whole object universe re-snapshotted after every step; TLC follows every trace "
             "step by step: continuity, well-formedness, prints and re-parses, same value / solution set as the START, same variables, no earlier state altered, no raise.",
        technique="TLA+ session state machine; stateful TLC trace validation of multi-step rewrite sessions",
        ref="5/C09"),
    "C10": dict(
        text="Same PARSE traces judged by the error-contract clauses (exception class in the documented set, ValueError for unsupported characters, "
             "returned trees well formed with correct arity, termination under a watchdog) over valid, invalid, truncated, mutated, soup, long-chain "
             "(<= 300 operands) and deeply nested (<= 40) texts; plus the parser-object model (ParserObject.tla: caches, consumed token lists, cursor; "
             "TLC shows the model history-free and each mechanism necessary) and TLC validation of all histories of failing/succeeding parses up to the bound.",
        technique="TLA+ grammar/error contract + parser-object state machine; TLC model checking with necessity variants; TLC trace validation",
        ref="5/C10"),
    "C12": dict(
        text="ParserObject.tla models the long-lived parser with token lists as mutable objects (cache aliasing, consuming parse, client edits); TLC "
             "checks HistoryFree / CacheIntact on all behaviours up to the bound and that removing copy-on-return or cursor reset violates them. "
             "All histories up to the bound over parse / tokenize / failing parse / clear_cache / five kinds of list edits on one real parser, each "
             "followed by queries of every text, are validated step by step by TLC: every result equals the fresh parser's; every returned list is a new object.",
        technique="TLA+ object-level model of parser caches; TLC exhaustive + necessity variants; TLC trace validation of call histories",
        ref="5/C12"),
    "C13": dict(
        text="Parser trees, rewrite-step results (repeated node ids), every constructor-built shape up to the bound (mixed kinds, all-equal kinds/ids/constants, one-operand "
             "nodes with the operand on either side, plain nodes) are cloned with clone() and from every node with clone_from_root in three call forms; then either side is "
             "mutated (payload, re-link, rotate). Heaps over one object universe are validated by TLC (TraceClone): isomorphism with equal kinds, exact constant values, names, "
             "ids, operand sides; no shared object; original untouched; equal print/evaluation; returned node at the same path inside a complete clone; the other tree unchanged after mutation.",
        technique="TLA+ heap isomorphism/independence contract; TLC trace validation of clone, clone_from_root and post-clone mutations",
        ref="5/C13"),
    "C14": dict(
        text="TLC explores every binary-tree shape up to the bound (Heap.tla/MC_Heap) and checks the specification's pre/in/post orders "
             "(permutation, true depth, defining in-order property); every shape is then built from the real node classes, all three visits "
             "are run without stop and with the stop signal at every callback position, all look-ups are called on every node, and TLC "
             "trace-validates each recorded run against the orders and look-ups computed from the projected link structure.",
        technique="TLA+ heap model + TLC exhaustive shapes; TLC trace validation of recorded callback sequences and look-ups",
        ref="5/C14"),
    "C15": dict(
        text="TLC checks on all shapes and nodes up to the bound that the reference rotation action satisfies the C15 contract (in-order kept, "
             "links consistent, grandparent re-pointed, root no-op) and is undone by rotating the old parent; the real rotate() is run on every "
             "node of every shape and each before/after pair of pointer-level heaps (same object universe) is validated by TLC against the contract "
             "and the reference action.",
        technique="TLA+ rotation action + contract; TLC exhaustive shapes x nodes; TLC trace validation of before/after heaps",
        ref="5/C15"),
    "C17": dict(
        text="Problems.tla states the generator contract over the returned text: derivable by the reference grammar (Grammar.tla), positive complexity, the promised like pair "
             "among the top-level addends with the promised number of blockers between them; helpers: distinct variables disjoint from exclusions, splits that sum. The random "
             "source is modelled as a sequence of draws whose first K are forced to the lowest/middle/highest admissible value (every prefix) followed by a seeded tail. Every "
             "generator over its parameter grid (incl. default ranges), both number modes, seeds and forced prefixes is run by the real code and each output is validated by TLC.",
        technique="TLA+ generator contract over the reference grammar and term keys; forced-draw prefixes of the random source; TLC trace validation of generator outputs",
        ref="5/C17",
        note=TB + " The for-all over seeds is explored (seeds x forced draw prefixes), not exhausted."),
    "C18": dict(
        text="Layout.tla states the tidy-tree invariants over a heap and exact (scaled dyadic) coordinates. Every shape up to the bound, as plain and as expression-shaped "
             "nodes, under three unit-multiplier pairs, is laid out by the real TreeLayout (first call, second call on the same nodes, fresh mirrored tree) and TLC validates "
             "each clause: y = depth*unit, children strictly left/right, parent centred, level order with >= one unit between neighbours, bounds = bounding box, repeatable, "
             "mirrored. The contour defect of the pinned tree is a known finding listed shape by shape; any unlisted failing (clause, shape) is a violation.",
        technique="TLA+ tidy-tree invariants; TLC trace validation of recorded coordinates (first / repeated / mirrored layouts) over all shapes",
        ref="5/C18"),
}

# what the seeded rounds 4-7 added to each check (DESIGN.md section 12); appended to the level text
ADDENDA = {
    "C01": " Also: two-step flows with the first step applied in place on the caller's own tree after find_nodes(); a sample of the sessions repeated in a child interpreter started with -O; trees whose nodes share ids; exponents of any size judged through exponent arithmetic modulo p-1; results handed out earlier re-inspected after later calls. Steps taken in place on the caller's own tree: after every rule object has been asked about an ancestor of the target and the first step has re-linked the nodes below it, each rule object that accepts the very same ancestor object is applied to it without another question (inplace-ancestor), and second steps with both steps in place (inplace-both); a result that is not a proper tree (one node object under two parents) is unfolded and must keep the value when rewritten further (SharedSourceVerdict).",
    "C02": " Also: equations whose first fold leaves numpy scalars, shared-id equations, second steps with the same rule objects, the -O child, earlier results re-inspected after later calls.",
    "C03": " Also: every text twice on one parser and once on a long-lived parser that has seen look-alikes, process-history noise between observations, CR LF pairs, control characters, texts with 60..170 function calls, integer literals around CPython's 4300-digit limit (known finding).",
    "C04": " Also: Printer.tla (implementation-shaped printer model, MC_Printer round-trips it through the reference grammar); printed text is re-parsed by a long-lived parser that has seen look-alikes; read-only calls and unrelated failing API calls precede printing; big-count texts printed after one distributive step.",
    "C05": " Also: the sign view NonNeg (signed zeros, sign of infinities) and the type view IntTyped (factorials of hundreds of thousands stay integers) of EvalBig.tla; assignments handed over as dict subclasses (OrderedDict, defaultdict) and required to be unchanged; integers of up to 5001 digits; an exact rational view for equations between non-integer sides. The IEEE special-value view ExtVal (binary-exponent intervals, exact at the leaves): overflowing products / quotients / sums give the signed infinity, inf - inf, inf * 0, inf / inf and anything / 0 give NaN, finite / inf a zero, and what stays inside the range stays finite (1,400 cases over operands up to 1.5e308).",
    "C06": " Also: used vs brand-new vs process-long rule objects, answers recorded earlier in the process for fixed trees, rule objects constructed in the opposite order, searches started at inner nodes, a second round of asking and applying on rewrite results (nan / inf / huge coefficients).",
    "C07": " Also: the rule must be handed the counterpart of the node that was asked about (worked_on_another_node); shared-id trees; in-place first steps; earlier results re-inspected after later calls. In-place steps on an ancestor every rule object was asked about before the nodes below it were re-linked; the node a change names as its result must not be left under the old root when the root was rewritten (wf_result_of_root_rewrite_has_a_parent).",
    "C08": " Also: each instance asked again with float-typed whole exponents, with variable names that are equal but not identical strings, with both rule-construction call forms, and refused instances again with the two variables differing by case only. Mixed-operator chains (5 + (3x + y), 5 * ((3 + x) * y)) are documented non-applicable forms of constant arithmetic. Every instance is also reached by an in-place edit of a tree the long-lived rule object was asked about just before (operands exchanged, asked, put back, asked and applied in place).",
    "C09": " Also: sessions mixing clone-per-step with in-place steps after find_nodes(), read-only calls after every step, integers of a thousand bits; TLC-generated model sessions (MC_RulesImpl_scripts) replayed into the real rules. Seeds with nested mixed-operator sums and compound multipliers.",
    "C10": " Also: histories with reconfigured / replaced tokenizers (reported as notes), calls made from deep inside the caller's recursion, ValueError-type failures inside open groups repeated 130 times, brand-new parsers asked after the history.",
    "C11": " Also: one long-lived reconfigured Tokenizer per process answers every question too, both construction call forms, function tables with new name lengths, all ASCII control characters, CR LF pairs. The long-lived tokenizer is used once with its constructor-time settings before its first reconfiguration.",
    "C12": " Also: ParserObject.tla models the tokenizer configuration (Configure, stale entries, ClearDropsTokens), Token objects inside the lists (CopyTokens, ClientMutate) and calls that run out of stack (DeepCall); five necessity variants are refuted by TLC; histories edit the token objects of the lists the parser hands out; reconfiguration histories are reported as notes.",
    "C13": " Also: independence observed through str, MathML, terminal text, classes, change marks, layout coordinates and r_index after public-API mutations and in-place edits of the classes list.",
    "C14": " Also: start depth / data parameters, stop signals that are equal but not identical, odd visitor answers, raising visitors (pruning visitors as notes), look-ups repeated after in-place edits (rotate, re-attach with the optional flag, swapped operands, new root), falsy ids. Edit sessions include an operand replaced through the setter (the replaced node keeps pointing at its former parent: it has no sibling).",
    "C15": " Also: every (first, second) pair of rotations on all shapes up to 4 / 5 nodes - the second rotation starts from a tree only a rotation produces (a one-operand node holding its operand on the other side).",
    "C16": " Also: factor tables of big squares / k(k+1) up to 2^31, integers of 401 digits as exponents and coefficients in every term predicate.",
    "C17": " Also: hold-outs outside the pool, exclusions as instances of the exported subclass, keyword and positional call forms. 1,260 / 18,000 additional seeds for the optional_var settings in the non-pretty number mode.",
    "C18": " Also: a fixed family of 2,500 (12,000) shapes with 11..48 nodes judged against the listed signatures, layout called on subtrees of a larger tree, one layout object reused with a decoy tree between measurements, rows exact for units that are not exactly representable.",
}
for _pid, _add in ADDENDA.items():
    if _pid in CHECKS:
        CHECKS[_pid]["text"] += _add

ALL = ["C%02d" % i for i in range(1, 19)]
PENDING_REASON = "check not built yet in this round (planned, see DESIGN.md section 5); no claim is made for it"


def build():
    checks = []
    for pid in ALL:
        c = CHECKS.get(pid)
        if not c:
            continue
        checks.append({
            "property_id": pid,
            "quick_cmd": "./check %s --tier quick" % pid,
            "thorough_cmd": "./check %s --tier thorough" % pid,
            "evidence_file": "/verif/evidence/%s.json" % pid,
            "replay_cmd_template": "./check %s --replay {path}" % pid,
            "engine": "tlc",
            "level_claimed": {"category": c.get("category", "model_checking"), "text": c["text"], "design_ref": c["ref"]},
            "level_note": c.get("note", TB),
            "technique": c["technique"],
        })
    na = [{"property_id": p, "reason": NA.get(p, PENDING_REASON)} for p in ALL if p not in CHECKS]
    man = {
        "version": 1,
        "setup_cmd": "./setup.sh",
        "hooks": {
            "guard": "MATHY_CORE_VERIF",
            "enable": "no source hooks: the harness imports mathy_core from /repo's working tree (PYTHONPATH=/repo) and reads public attributes only; ./check sets MATHY_CORE_VERIF=1 for its own recording",
            "baseline_off_cmd": "cd /repo && /venv/bin/python -m pytest -ra -q -p no:cacheprovider --timeout=900 --continue-on-collection-errors",
            "source_commits": [],
            "add_only": True,
        },
        "engines": [{"name": "tlc", "path": "/verif/spec", "serves_properties": sorted(CHECKS),
                     "kind_free_text": "explicit TLA+ specification checked with TLC; trace validation of real executions; spec-generated cases replayed into the code"}],
        "checks": checks,
        "notes": "See DESIGN.md. ./check <ID> --selftest demonstrates the binding (a corrupted trace is rejected).",
        "not_applicable": na,
    }
    return man


NA = {}

if __name__ == "__main__":
    with open(os.path.join(ROOT, "MANIFEST.json"), "w") as f:
        json.dump(build(), f, indent=1)
    print("MANIFEST.json written:", len(build()["checks"]), "checks")
