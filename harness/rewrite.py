"""REWRITE family driver: applies the real rules from /repo and records step / probe events.

step : t0 --clone--> src ; node k of src --clone_from_root()--> work ; rule.apply_to(work) --> result
       heaps before / after are projected over one universe of objects (src tree, working clone, new nodes),
       the printed result is re-parsed with the real parser.
probe: can_apply_to on every node (twice, with heap snapshots around), find_nodes, find_node.
"""
import glob
import itertools
import json
import os
import random

from . import common, project
from .common import REPO


_CALLS = [0]


def rules(pos=None):
    from mathy_core.rules import (AssociativeSwapRule, BalancedMoveRule, CommutativeSwapRule, ConstantsSimplifyRule,
                                  DistributiveFactorOutRule, DistributiveMultiplyRule, MultiplicativeInverseRule,
                                  RestateSubtractionRule, VariableMultiplyRule)
    _CALLS[0] += 1
    if pos is None:
        pos = _CALLS[0] % 2 == 0      # the documented options are given by keyword and positionally in turn
    return [("assoc", "", AssociativeSwapRule()), ("comm", "pref", CommutativeSwapRule(True) if pos else CommutativeSwapRule()),
            ("comm", "nopref", CommutativeSwapRule(False) if pos else CommutativeSwapRule(preferred=False)), ("fold", "", ConstantsSimplifyRule()),
            ("factor", "", DistributiveFactorOutRule(False) if pos else DistributiveFactorOutRule()),
            ("factor", "consts", DistributiveFactorOutRule(True) if pos else DistributiveFactorOutRule(constants=True)),
            ("dist", "", DistributiveMultiplyRule()), ("inverse", "", MultiplicativeInverseRule()),
            ("restate", "", RestateSubtractionRule()), ("varmul", "", VariableMultiplyRule()), ("move", "", BalancedMoveRule())]


def rules_narrowed():
    """user-defined subclasses of the shipped rules that narrow get_type() (the documented extension point: 'leave some nodes alone'):
    whatever such a rule reports as applicable it must be able to apply"""
    from mathy_core.rules import (BalancedMoveRule, ConstantsSimplifyRule, DistributiveFactorOutRule, MultiplicativeInverseRule,
                                  RestateSubtractionRule, VariableMultiplyRule)
    out = []
    for name, base in (("fold", ConstantsSimplifyRule), ("factor", DistributiveFactorOutRule), ("inverse", MultiplicativeInverseRule),
                       ("restate", RestateSubtractionRule), ("varmul", VariableMultiplyRule), ("move", BalancedMoveRule)):
        class Narrowed(base):
            def get_type(self, node):
                if common.pick(str(node), 3) == 0:
                    return None
                return super().get_type(node)
        Narrowed.__name__ = "Narrowed" + base.__name__
        out.append((name, "narrowed", Narrowed()))
    return out


def rules_reversed():
    """the same eleven instances in the same order, but CONSTRUCTED last-to-first"""
    from mathy_core.rules import (AssociativeSwapRule, BalancedMoveRule, CommutativeSwapRule, ConstantsSimplifyRule,
                                  DistributiveFactorOutRule, DistributiveMultiplyRule, MultiplicativeInverseRule,
                                  RestateSubtractionRule, VariableMultiplyRule)
    makers = [("assoc", "", AssociativeSwapRule), ("comm", "pref", CommutativeSwapRule),
              ("comm", "nopref", lambda: CommutativeSwapRule(preferred=False)), ("fold", "", ConstantsSimplifyRule),
              ("factor", "", DistributiveFactorOutRule), ("factor", "consts", lambda: DistributiveFactorOutRule(constants=True)),
              ("dist", "", DistributiveMultiplyRule), ("inverse", "", MultiplicativeInverseRule),
              ("restate", "", RestateSubtractionRule), ("varmul", "", VariableMultiplyRule), ("move", "", BalancedMoveRule)]
    built = [(n, o, m()) for n, o, m in reversed(makers)]
    return list(reversed(built))


RULE_INDEX = {(n, o): k for k, (n, o, _) in enumerate([("assoc", "", 0), ("comm", "pref", 0), ("comm", "nopref", 0), ("fold", "", 0),
                                                        ("factor", "", 0), ("factor", "consts", 0), ("dist", "", 0), ("inverse", "", 0),
                                                        ("restate", "", 0), ("varmul", "", 0), ("move", "", 0)])}


def inorder(root):
    """in-order node list through left/right only (not through the API under test)"""
    out = []
    stack = []
    n = root
    seen = 0
    while (stack or n is not None) and seen < 100000:
        seen += 1
        while n is not None:
            stack.append(n)
            n = n.left
        n = stack.pop()
        out.append(n)
        n = n.right
    return out


def slim(h):
    """drop payload arrays the REWRITE clauses do not read"""
    h = dict(h)
    h.pop("nid", None)
    if not any(e in ("big", "repr") for e in h.get("ex", [])):
        h.pop("big", None)
    return h


SHARE = "\u2261 "       # marker: equal subterms of the parsed tree share their ids, as a tree assembled with clone() does


def parse(text):
    from mathy_core.parser import ExpressionParser
    if text.startswith(SHARE):
        tree = ExpressionParser().parse(text[len(SHARE):])
        share_ids(tree)
        return tree
    return ExpressionParser().parse(text)


_REPARSER = {}
_LONG = {}
_FIRST = {}
PROBE_TEXTS = ["12x + 12y", "4x + 2x", "6 + 8", "2x * 3x", "12x + 6", "9y^2 + 3y^2", "10 + 4", "8x + 12x", "2x + 3 = 7", "x * x^2", "4 - 3x", "6 / -z", "(x + 1) * 2", "3x + 9y"]


def reparse(printed):
    """what a caller does with printed text: hands it to the parser it already has. That parser has seen plenty of other texts,
    among them look-alikes of this one (blanks moved, case changed); a correct parser answers as a new one would."""
    from mathy_core.parser import ExpressionParser
    p = _REPARSER.get("p")
    if p is None or _REPARSER["n"] > 3000:
        p = _REPARSER["p"] = ExpressionParser()
        _REPARSER["n"] = 0
    _REPARSER["n"] += 1
    if common.pick(printed, 2):
        for v in (" ".join(printed.replace(" ", "")), printed.replace(" ", ""), printed.upper(), printed.replace(" ", "  "), printed + " "):
            if v != printed:
                try:
                    p.parse(v)
                except BaseException:  # noqa
                    pass
    return p.parse(printed)


def share_ids(tree):
    """give every subterm the ids of the first structurally equal subterm before it (what building it as first.clone() does)"""
    first = {}
    for n in inorder(tree):
        key = json.dumps(project.term(n), sort_keys=True)
        if key in first and first[key] is not n:
            for a, b in zip(inorder_sub(first[key]), inorder_sub(n)):
                b.id = a.id
        else:
            first.setdefault(key, n)


def inorder_sub(node):
    out = []

    def rec(n):
        if n is None:
            return
        rec(n.left); out.append(n); rec(n.right)
    rec(node)
    return out


def step_event(t0, name, opt, rule, k, text="", own_tree=False, in_place=None):
    objs = project.ObjTable()
    if in_place is not None:
        # a caller that keeps ONE tree and applies on the very node it asked about (no clone in between): the reference
        # ("source") is a copy taken now, the tree worked on is the caller's own
        nd = in_place
        src = nd.get_root().clone()
        project.absorb(objs, [src])
        work = nd
        wroot = nd.get_root()
        k = next((i for i, n in enumerate(inorder(wroot)) if n is work), -1)
    else:
        src = t0 if own_tree else t0.clone()      # own_tree: the caller's very tree (with whatever bookkeeping earlier calls left on its nodes)
        nd = inorder(src)[k]
        # the realistic flow: ask on the tree, clone the node from the root, apply on the clone
        try:
            if not rule.can_apply_to(nd):
                return None, None
        except BaseException:  # noqa  (reported by the probe event)
            return None, None
        project.absorb(objs, [src])
        work = nd.clone_from_root()
        wroot = work.get_root()
    kw = next((i for i, n in enumerate(inorder(wroot)) if n is work), -1)
    hb = project.snapshot(objs, [src, wroot])
    ev = {"typ": "step", "rule": name, "opt": opt, "text": text, "k": k, "kw": kw, "hb": slim(hb), "src": objs.of(src), "work": objs.of(wroot),
          "node": objs.of(work), "res": 0, "printed": "", "reparse": "-", "re": {"k": "c", "n": 0, "d": 1}}
    result_root = None
    try:
        change = rule.apply_to(work)
        res = change.result
        if res is None or not hasattr(res, "get_root"):
            ev["outcome"] = "ok"
            ev["ha"] = slim(project.snapshot(objs, []))
            return ev, None
        result_root = res.get_root()
        ev["outcome"] = "ok"
    except RecursionError:
        ev["outcome"] = "RecursionError"
    except BaseException as e:  # noqa
        ev["outcome"] = type(e).__name__
        ev["exc_msg"] = str(e)[:120]
    if result_root is None:
        ev["ha"] = slim(project.snapshot(objs, []))
        return ev, None
    ev["ha"] = slim(project.snapshot(objs, [result_root]))
    ev["res"] = objs.of(result_root)
    try:
        ev["rn"] = objs.of(res)               # the node the change names as its result (the root of the result tree when the root was rewritten)
    except BaseException:  # noqa
        ev["rn"] = 0
    if k % 2 == 0:
        # what a caller showing the result does first; reading must not change what str() gives afterwards
        small = len(inorder(result_root)) <= 40
        for f in (lambda: result_root.terminal_text, lambda: result_root.to_math_ml() if small else "", lambda: result_root.to_list(), lambda: result_root.terminal_text):
            try:
                f()
            except BaseException:  # noqa
                pass
    try:
        printed = str(result_root)
        ev["printed"] = printed
        try:
            rp = reparse(printed)
            ev["reparse"] = "ok"
            ev["re"] = project.term(rp)
        except BaseException as e:  # noqa
            ev["reparse"] = type(e).__name__
    except BaseException as e:  # noqa
        ev["printed"] = "<str() raised %s>" % type(e).__name__
        ev["reparse"] = "unprintable"
    return ev, result_root


def probe_event(t0, name, opt, rule, text="", own_tree=False):
    objs = project.ObjTable()
    tree = t0 if own_tree else t0.clone()     # own_tree: the caller's very tree, with whatever earlier searches left on its nodes
    nodes = inorder(tree)
    hb = project.snapshot(objs, [tree])
    exc = ""

    def ask(n):
        nonlocal exc
        try:
            return bool(rule.can_apply_to(n))
        except BaseException as e:  # noqa
            exc = type(e).__name__
            return False
    a1 = [ask(n) for n in nodes]
    ha = project.snapshot(objs, [])
    a2 = [ask(n) for n in nodes]
    pos = {id(n): i + 1 for i, n in enumerate(nodes)}
    try:
        found = [pos.get(id(n), -1) for n in rule.find_nodes(tree)]
        rindex = [getattr(n, "r_index", None) for n in nodes]
        rindex = [r if isinstance(r, int) else -1 for r in rindex]
    except BaseException as e:  # noqa
        exc = exc or type(e).__name__
        found, rindex = [-1], [-1] * len(nodes)
    try:
        fn = rule.find_node(tree)
        first = 0 if fn is None else pos.get(id(fn), -1)
    except BaseException as e:  # noqa
        exc = exc or type(e).__name__
        first = -1
    # the same searches started at inner nodes: they report exactly the applicable nodes of that subtree (a contiguous in-order range)
    subs = []
    if len(nodes) <= 25:
        for si, sn in enumerate(nodes):
            if sn is tree or (sn.left is None and sn.right is None and si % 3):
                continue
            inside = inorder(sn)
            lo = pos[id(inside[0])]
            try:
                f = [pos.get(id(n), -1) for n in rule.find_nodes(sn)]
                fn = rule.find_node(sn)
                f1 = 0 if fn is None else pos.get(id(fn), -1)
            except BaseException as e:  # noqa
                exc = exc or type(e).__name__
                f, f1 = [-1], -1
            subs.append({"lo": lo, "hi": lo + len(inside) - 1, "found": f, "first": f1})
    return {"typ": "probe", "rule": name, "opt": opt, "text": text, "hb": slim(hb), "ha": slim(ha), "root": objs.of(tree),
            "a1": a1, "a2": a2, "found": found, "rindex": rindex, "first": first, "exc": exc, "subs": subs}


# counts in the hundreds: many function calls / parenthesised groups / terms in ONE text, also as the result of one rewrite
def big_count_prints():
    out = []
    for n in (60, 80, 130, 170):
        body = " + ".join("sgn(x)" if k % 3 else "sgn(%d - y)" % k for k in range(n))
        out += [body, ("(y + z) * (%s)" % body, "dist", ""), ("(%s) * 2z" % body, "dist", "")]
        groups = " + ".join("(x - %d) * (y + %d)" % (k, k) for k in range(n // 2))
        out += [groups, ("3 * (%s)" % groups, "dist", "")]
    return out


def print_event(text):
    """str(parse(text)) parsed back with the real parser"""
    if common.pick(str(text), 40) == 0:
        common.process_noise(common.pick(str(text), 997))
    via = ""
    if isinstance(text, (tuple, list)):
        # (text, rule, option): the tree that is printed is what the rule makes of the ROOT of parse(text) - for trees too big to be
        # sent through the step clauses (hundreds of nodes), whose printed form must still read back to the same expression
        text, via, vopt = text
    try:
        t0 = parse(text)
        if via:
            rule = [r for n_, o_, r in rules(pos=False) if (n_, o_) == (via, vopt)][0]
            if not rule.can_apply_to(t0):
                return []
            t0 = rule.apply_to(t0).result.get_root()
            text = "%s  =[%s@root]=>" % (text if len(text) < 80 else text[:40] + "...(%d characters)" % len(text), via)
    except BaseException:  # noqa
        return []
    ev = {"typ": "print", "rule": "print", "opt": "", "text": text, "k": 0, "t": project.term(t0), "printed": "", "pc": [], "reparse": "-",
          "re": {"k": "c", "n": 0, "d": 1}}
    try:
        ev["printed"] = str(t0)
        ev["pc"] = [ord(c) for c in ev["printed"]]
        try:
            ev["re"] = project.term(reparse(ev["printed"]))
            ev["reparse"] = "ok"
        except BaseException as e:  # noqa
            ev["reparse"] = type(e).__name__
    except BaseException as e:  # noqa
        ev["printed"] = "<str() raised %s>" % type(e).__name__
        ev["reparse"] = "unprintable"
    return [ev]


def reprobe_event(tree, persistent, text, after):
    """C06: the answers of rule objects that have been used before must equal those of brand-new
    rule objects on the identical tree (asking is a function of the tree only)."""
    nodes = inorder(tree)

    def answers(rs):
        out = []
        for _, _, r in rs:
            row = []
            for n in nodes:
                try:
                    row.append(bool(r.can_apply_to(n)))
                except BaseException:  # noqa
                    row.append(False)
            out.append(row)
        return out
    used = answers(persistent)
    # brand-new objects, constructed in the opposite order (whatever a class remembers about "the last instance built" now differs)
    fresh = answers(rules_reversed())
    again = answers(persistent)
    out = [{"typ": "reprobe", "rule": after, "opt": "", "text": text, "k": 0, "used": used, "fresh": fresh}]
    if again != used:
        out.append({"typ": "reprobe", "rule": "after-other-instances:" + after, "opt": "", "text": text, "k": 0, "used": again, "fresh": used})
    return out


_NOISE = [0]


def events_for_text(job):
    if common.pick(job[0], 25) == 0:
        common.process_noise(common.pick(job[0], 997))
    return _events_for_text(job)


def _events_for_text(job):
    """all probe + step events of one start text (every rule instance, every applicable node).
    One set of rule objects is used for the whole text, as a search agent would."""
    text, want_probe = job[0], job[1]
    second = len(job) > 2 and job[2]
    inplace2 = len(job) > 3 and job[3]
    try:
        t0 = parse(text)
    except BaseException:  # noqa
        return []
    out = []
    persistent = rules(pos=bool(common.pick(text, 2)))
    n = len(inorder(t0))
    firsts = []
    kept = []
    for name, opt, rule in persistent:
        if want_probe:
            out.append(probe_event(t0, name, opt, rule, text))
        for k in range(n):
            ev, result_root = step_event(t0, name, opt, rule, k, text)
            if ev is None:
                continue
            out.append(ev)
            if result_root is not None and ev["outcome"] == "ok":
                firsts.append((name, k, result_root, ev["printed"], opt))
                if len(kept) < 12:
                    ko = project.ObjTable()
                    kept.append((name, k, result_root, ko, slim(project.snapshot(ko, [result_root]))))
            if want_probe and result_root is not None and ev["outcome"] == "ok":
                try:
                    out.extend(reprobe_event(result_root, persistent, text, "%s@%d" % (name, k)))
                except BaseException:  # noqa
                    pass
                # the same application done IN PLACE on a tree every rule object has already been asked about:
                # the very node objects are re-linked under the rules' feet, then everything is asked again
                try:
                    tree2 = t0.clone()
                    nodes2 = inorder(tree2)
                    for _, _, r in persistent:
                        for n2 in nodes2:
                            try:
                                r.can_apply_to(n2)
                            except BaseException:  # noqa
                                pass
                    if rule.can_apply_to(nodes2[k]):
                        if k % 4 == 1:
                            # ... and searched (find_nodes stamps its in-order indices on these very nodes) before they are re-linked
                            for _, _, r in persistent:
                                try:
                                    r.find_nodes(tree2)
                                except BaseException:  # noqa
                                    pass
                        root2 = rule.apply_to(nodes2[k]).result.get_root()
                        out.extend(reprobe_event(root2, persistent, text, "inplace:%s@%d" % (name, k)))
                        if k % 4 == 1 and len(inorder(root2)) <= 40:
                            # the search repeated on the re-linked tree itself (not on a copy): indices as the tree is NOW
                            for nb, ob, rb in persistent:
                                pe = probe_event(root2, nb, ob, rb, "%s  =[in place %s@%d]=>  %s" % (text, name, k, str(root2)), own_tree=True)
                                pe["second"] = [text, name, k, "inplace"]
                                out.append(pe)
                except BaseException:  # noqa
                    pass
                # ... and with each surviving ancestor as the LAST node every rule object was asked about
                try:
                    seen_anc = set()
                    for up in (1, 2, 99):
                        tree3 = t0.clone()
                        nodes3 = inorder(tree3)
                        target = nodes3[k]
                        anc = target
                        for _ in range(up):
                            if anc.parent is None:
                                break
                            anc = anc.parent
                        pos = nodes3.index(anc)
                        if anc is target or pos in seen_anc:
                            continue
                        seen_anc.add(pos)
                        for _, _, r in persistent:
                            try:
                                r.can_apply_to(anc)
                            except BaseException:  # noqa
                                pass
                        rule.apply_to(target)
                        if anc.parent is None and anc is not tree3 and False:
                            continue

                        def one(rs):
                            row = []
                            for _, _, r in rs:
                                try:
                                    row.append([bool(r.can_apply_to(anc))])
                                except BaseException:  # noqa
                                    row.append([False])
                            return row
                        used = one([x for x in persistent if x[2] is not rule])
                        fresh = one([x for x, y in zip(rules(), persistent) if y[2] is not rule])
                        out.append({"typ": "reprobe", "rule": "inplace-ancestor:%s@%d" % (name, k), "opt": "", "text": text, "k": 0, "used": used, "fresh": fresh})
                except BaseException:  # noqa
                    pass
    if want_probe:
        try:
            out.extend(reprobe_event(t0.clone(), persistent, text, "start"))
            # rule objects that live as long as the process and have been asked about thousands of other trees, most of them
            # freed since (their addresses are reused)
            if "rules" not in _LONG or _LONG["n"] > 2000:
                _LONG["rules"], _LONG["n"] = rules(pos=False), 0
            _LONG["n"] += 1
            # ... each time also about a few short-lived trees of other kinds (an equation, a sum, a product) that are dropped at once
            for d in ("x + 1 = 2", "2y * y", "4x + 2x", "3 = x", "7"):
                dt = parse(d)
                for _, _, r in _LONG["rules"]:
                    try:
                        r.can_apply_to(dt)
                        r.find_node(dt)
                    except BaseException:  # noqa
                        pass
                del dt
            out.extend(reprobe_event(t0.clone(), _LONG["rules"], text, "long-lived"))
            # a handful of fixed trees are asked about again and again over the life of the process (by brand-new rule objects):
            # the answers are what they were the first time, whatever was done in between
            for pt in PROBE_TEXTS[common.pick(text, 3)::3]:
                tree = parse(pt)
                nodes = inorder(tree)
                now = []
                for _, _, r in rules(pos=False):
                    row = []
                    for nd in nodes:
                        try:
                            row.append(bool(r.can_apply_to(nd)))
                        except BaseException:  # noqa
                            row.append(False)
                    now.append(row)
                first = _FIRST.setdefault(pt, now)
                if first != now:
                    out.append({"typ": "reprobe", "rule": "same-tree-later-in-the-process:" + pt, "opt": "", "text": text, "k": 0, "used": now, "fresh": first})
        except BaseException:  # noqa
            pass
    if second and firsts:
        # a second step from some of the results, with the SAME rule objects (a two-step derivation)
        step = max(1, len(firsts) // 3)
        for name1, k1, root1, printed1, _ in (firsts[::step][:3] if second is True else firsts[:int(second)]):
            m = len(inorder(root1))
            if m > 40:
                continue
            for name, opt, rule in persistent:
                if want_probe:
                    pe = probe_event(root1, name, opt, rule, "%s  =[%s@%d]=>  %s" % (text, name1, k1, printed1))
                    pe["second"] = [text, name1, k1]
                    out.append(pe)
                for k in range(m):
                    ev, _ = step_event(root1, name, opt, rule, k, "%s  =[%s@%d]=>  %s" % (text, name1, k1, printed1))
                    if ev is not None:
                        ev["second"] = [text, name1, k1]
                        out.append(ev)
    # results handed out earlier in this session are looked at again, after everything else that was done since
    for name1, k1, root1, ko, before in kept:
        try:
            after = slim(project.snapshot(ko, []))
        except BaseException:  # noqa
            continue
        if after != before:
            out.append({"typ": "intact", "rule": name1, "opt": "", "text": text, "k": k1, "hb": before, "ha": after})
    if inplace2 and firsts:
        # a caller that keeps ONE tree: find_nodes() of every rule on it, a first step applied in place, then every rule at every node
        # of that very tree (clone_from_root of nodes that still carry the earlier bookkeeping)
        stepi = max(1, len(firsts) // int(inplace2))
        for name1, k1, _, _, opt1 in firsts[::stepi][:int(inplace2)]:
            try:
                tree = t0.clone()
                for _, _, r in persistent:
                    r.find_nodes(tree)
                rule1 = [r for n_, o_, r in persistent if (n_, o_) == (name1, opt1)][0]
                root1 = rule1.apply_to(inorder(tree)[k1]).result.get_root()
                printed1 = str(root1)
            except BaseException:  # noqa
                continue
            m = len(inorder(root1))
            if m > 40:
                continue
            cands = []
            for name, opt, rule in persistent:
                for k in range(m):
                    ev, _ = step_event(root1, name, opt, rule, k, "%s  =[in place %s@%d]=>  %s" % (text, name1, k1, printed1), own_tree=True)
                    if ev is not None:
                        ev["second"] = [text, name1, k1, "inplace"]
                        out.append(ev)
                        cands.append((name, opt, rule, k))
            # ... and some of these second steps again with BOTH steps in place (no clone at all between them): a result that is not a
            # proper tree - one node object under two parents prints and evaluates like two copies - only shows when it is edited further
            cands.sort(key=lambda c_: common.pick("%s|%s|%s|%d" % (text, c_[0], c_[1], c_[3]), 1000))
            for name, opt, rule, k in cands[:(6 if int(inplace2) <= 3 else 40)]:
                try:
                    tree_b = t0.clone()
                    for _, _, r in persistent:
                        r.find_nodes(tree_b)
                    root_b = rule1.apply_to(inorder(tree_b)[k1]).result.get_root()
                    nodes_b = inorder(root_b)
                    if k >= len(nodes_b) or not rule.can_apply_to(nodes_b[k]):
                        continue
                    ev, _ = step_event(None, name, opt, rule, -1, "%s  =[in place %s@%d, next step in place too]=>  %s" % (text, name1, k1, printed1), in_place=nodes_b[k])
                    if ev is not None:
                        ev["second"] = [text, name1, k1, "inplace-both"]
                        out.append(ev)
                except BaseException:  # noqa
                    pass
            # ... and the order of events in which anything a rule object remembers about "the node I was asked about last" goes
            # stale: every rule object is asked about an ancestor of the target, the first step re-links the nodes below that
            # ancestor in place, and each rule object that now accepts the very same ancestor object is applied to it - in place,
            # without another question in between. The step is judged like any other (against a copy taken just before it).
            for up in (1, 2):
                try:
                    tree = t0.clone()
                    target = inorder(tree)[k1]
                    anc = target
                    for _ in range(up):
                        anc = anc.parent if anc is not None else None
                    if anc is None:
                        continue
                    accepted = []
                    for name, opt, rule in persistent:
                        if rule is rule1:
                            continue
                        t2 = tree.clone()
                        nodes2 = inorder(t2)
                        tgt2, anc2 = nodes2[k1], nodes2[inorder(tree).index(anc)]
                        try:
                            rule.can_apply_to(anc2)                     # the last node this rule object was asked about
                        except BaseException:  # noqa
                            pass
                        try:
                            if not rule1.can_apply_to(tgt2):
                                break
                            rule1.apply_to(tgt2)                        # re-links nodes below anc2 in place
                        except BaseException:  # noqa
                            break
                        if anc2.get_root() is not t2.get_root() or not any(n is anc2 for n in inorder(anc2.get_root())):
                            continue                                    # the ancestor did not survive the first step
                        try:
                            ok = bool(rule.can_apply_to(anc2))
                        except BaseException:  # noqa
                            ok = False
                        if not ok:
                            continue
                        ev, _ = step_event(None, name, opt, rule, -1, "%s  =[in place %s@%d, then the ancestor asked about before]=>  %s" % (text, name1, k1, str(anc2.get_root())), in_place=anc2)
                        if ev is not None:
                            ev["second"] = [text, name1, k1, "inplace-ancestor", up]
                            out.append(ev)
                except BaseException:  # noqa
                    pass
    return out


# ------------------------------------------------------------------ start expressions
TERMS_Q = ["2", "-3", "0.5", "x", "y", "2x", "-3x", "x^2", "4x^2", "-x", "0", "1", "x^0", "2x^-1", "-x^2", "0.5x^2"]
OPS = ["+", "-", "*", "/"]


def term_level(nleaves, terms):
    out = set()
    for a, b in itertools.product(terms, repeat=2):
        for o in OPS:
            out.add("%s %s %s" % (a, o, b))
    if nleaves >= 3:
        small = terms[:10]
        for a, b, c in itertools.product(small, small, ["x", "3", "2x", "x^2", "-y"]):
            for o, o2 in itertools.product(OPS, repeat=2):
                out.add("%s %s %s %s %s" % (a, o, b, o2, c))
                out.add("%s %s (%s %s %s)" % (a, o, b, o2, c))
                out.add("(%s %s %s) %s %s" % (a, o, b, o2, c))
    return sorted(out)


# the "alternate tree forms" of the rule documentation and code comments, their additive analogues, and value classes
# that small exhaustive sets do not reach (decimals with a composite integer part, tiny decimals, four-leaf chains)
FORMS = ["5 * (8h * t)", "(7 * 10y^3) * x", "(7q * 10y^3) * x", "792z^4 * 490f * q^3", "(u^3 * 36c^6) * 7u^3", "(4 + p) + p", "p + (p + 2x)",
         "5 + ((3 + x) + y)", "5 + (3 + (x + y))", "(5 + 3x) + (2 + y)", "5 * ((3 * x) * y)", "(y * 2x) * 3x", "5 + (4y * 2x^2) * 3x^3", "(2x * 3) * y^2",
         "(2 * 3x) * (4 * y)", "4x * 2y * 5x * 3y", "(36c^6 * u^3) * 7u^3", "2x * (3x * y)", "(y * x) * x^2", "(x^2 * y) * (x * 4)",
         "(4 + p) + 2p", "(y + 4x) + 3x", "y + (4x + 3x)", "(2x + y) + (3x + z)", "2x + (y + 3x)", "(2x + (3x + y)) + z", "4x + 2 * 3x",
         "6.5 + 4", "3 * (9.75 + 6) + y", "9.75 + 6.5", "2.5 + 10", "12.5x + 2.5x", "6.5x + 4x", "0.75y^2 + 2.25y^2",
         "x * (0.0000004 * 0.0000002)", "(0.000002 / 3000000) * x + y", "0.00005x + 1", "0.001 * 0.02 + x", "0.0001x + 0.0002x", "1000000 * 0.000001x",
         "x - 3^2 * x", "a - 3^2", "-(3^2) * x", "4 - -(x * y)", "3 / -((x + 1) * y)", "(x^2)^3 * x", "(x^y)^z", "2^(x^2)",
         "7 - (2 + 3)", "7 - (2 - x)", "7 / (2 / x)", "7 / (2 * x)", "2 ^ (3 ^ x)", "5 - (3 - x)", "8 / (4 / x)", "5 + (3 - x)", "5 * (3 / x)", "5 + (3 + -1x)",
         "3x + 4X + 2y", "X * x", "(3c * u^3) * 7U^3 + c", "x^2 + X^2", "2X + 3X", "xX * Xx", "4x * 2X^2", "K + k + 2K",
         "0.5x + 0.5y", "0.25 + 0.25q", "(z + 0.5x) + 0.5y", "0.5x^2 + 0.5x", "0.75y^3 + 0.75y", "0.5x + 0.5x^2 + y",
         "-6 + 4", "-12 + 8", "-6 + -9", "12 + -8", "-4 + -6x", "-6x + -9x",
         "12345678901234567890 * 98765432109876543210", "99999999999999999999 + 1", "2000000000.5 + 1", "1000000 + 0.0005", "4000000.002 * 2", "123456.5 - 0.25",
         "0.000002 * 0.0000003 * x + 0.5", "0.00000000000000001 * 0.00000000000000001", "1 / 3 + x", "(2 / 3) * x", "10 / 4", "7 / -2",
         "(4 + (y + 2x)) + 3x", "(y + (4 + 2x^2)) + -3x^2", "(z + (y + x)) + x", "2x + ((3x + y) + 4)", "x^2 + ((-x^2 + y) + z)", "0.5x + ((0.5x + y) + 1)",
         "(y + 2x) + (3x + z)", "(4 + x^2) + (x^2 + y)", "(y + -x) + (-x + 1)", "(y + 12x) + (8x + z)",
         "4 + -2x^3", "y + -3x^2", "2x + -0.5x^2", "(x + 1) + -4y^3", "-(3 + 2)", "-(4 * 2)", "-(2 - 5)", "-(6 / 4)", "-(2 ^ 3)", "x + -(3 * 0.5)", "-(0 + 0)",
         "x^0 * x^2", "x^(2 - 2) * x^3", "x^0 + x^0", "0x + 0x", "1x * 1x", "-x * -x", "-x + -x", "x^-1 * x", "2x^-2 * 3x^2"]
# trees only a rewrite can produce (the grammar has no literal for them): a folded division by zero leaves a nan / inf coefficient
# exponents far beyond the small-rational view (judged through exponent arithmetic modulo p - 1)
BIG_EXPONENT_FORMS = ["x^1000000000 + x^1000000001", "x^1000000000 + x^1000000000", "2x^123456789 + 3x^123456789", "0.5x^1000000007 + 0.5x^1000000008", "x^1000000000 * x^1000000001",
                      "y + x^4000000000 + x^4000000001", "x^(10^12) * x", "3x^99999999999999999999 + 4x^99999999999999999999", "x^2147483647 + x^2147483648"]
HUGE_FORMS = ["10^4400 * 2 + x", "10^400 * 2 + x", "7^365 + 1", "2^1030 * x + 2^1030 * x", "(10^200)^2 * y", "3x^(10^30) * 2x", "10^400 + 10^400 = x"]
UNDEF_FORMS = ["(4 / 0)x + 2x", "(0 / 0)x + 3x", "2x + (4 / 0)x", "(4 / 0) + 2", "(4 / 0)x^2 + 2x^2", "(4 / 0)x * 2x", "(1 / 0) * 3", "x * (4 / 0) * x", "(4 / 0)x = 2",
               "(4 / 0)x + 2 = 3", "-(4 / 0) + x", "(4 / 0)x - 2x", "(4 / 0)^2 + 1", "(2 - 2) * x + 2x", "(0 * 3)x + 2x", "0x + 0x", "(5 - 5)x^2 + (1 - 1)x^2"]
# trees in which a subterm and its copy carry the same ids (built with clone(); several rules build such trees themselves)
SHARED_ID_FORMS = [SHARE + t for t in ["(2y + z) + 2y", "2y + (z + 2y)", "4x + 4x", "4x + y + 4x", "(x + 1) * (x + 1)", "x * y * x", "2x^2 + 3 + 2x^2", "x + x + x", "(x + 2) + (x + 2)",
                                       "3 * x + 3 * x", "2 * 3 + 2 * 3", "x - x", "-x + -x", "x^2 * x^2", "(a + b) * c + (a + b) * d", "7 + x + 7"]]
# equations whose first fold leaves a numpy scalar (np.float64(0.0), np.float64(4.0)) as a coefficient: the grammar cannot write those
NUMPY_ZERO_EQ_FORMS = ["0^0.5 * x = 0", "(0.0^2)x = 0", "(0^1.5)x = 3", "x * 0^0.5 = 2", "(0^0.5)x + 2 = 2", "(4^0.5)x = 6", "(2^2.0)x = 8", "(0.5^2 - 0.25)x = 1", "(1.5 - 1.5)x = 0", "(2.0^0.5 * 0)x = 0"]
SHARED_ID_EQ_FORMS = [SHARE + t for t in ["(2y + z) + 2y = 10", "2y + (z + 2y) = 10", "x + x = 4", "2x + 3 + 2x = 7", "(x + 1) + (x + 1) = 6", "4x + y + 4x = 2", "x = x", "2x + 1 = 2x + 1",
                                          "10 = (2y + z) + 2y", "y + 3 + y = y + 3", "3 + x + 3 = 3", "2x * 2x = 16", "x + 2 = 2 + x"]]
# a nested sum whose inner first / last addend is a product, quotient or power that merely STARTS or ENDS with a like term (three levels,
# mixed operators): nothing to factor between the outer term and that addend
FORMS += ["-(4x) + 2x", "7y + (-(3x^2) + x^2)", "-(4x) * x^2", "2x - -(3x)", "-(2x^2) * -(3x)",
          "(x * y) * (z + 2)", "(12 + r) * (s + t)", "(x * y) * (y + z)", "(2 + p) * (q + 3x)", "(z + 2) * (x * y)", "(x^2 * y) * (3 + z) + 1",
          "x + (x * y + 3)", "x + (x / y + 3)", "2x + (x^2 * y + z)", "(3 + y * x) + x", "x + (2x * y + x)", "4p + (p * (q + 1) + 2)", "(z + y / x) + x",
          "x + ((x + 1) * y + 3)", "3x + (x^y + 2)", "x * (x + y * 3)", "2 + (2 * y + 3)"]

EQ_FORMS = ["x + 1 = y = 3", "x = y + 2 = 5", "2x = 4 = y + 1", "0.00000000001x = 2", "0.0000001x = 3", "y + 4x * 2X^2 = 7", "3x + 4X = 7", "x + -2y^2 = 3", "7 = 4x + -y^3", "-2x^2 + 1 = 9", "x + -0.5y^3 = 2", "2 * ((x + 1) + 5) = 20", "((x + 1) + 5)^2 = 4", "-((x + 1) + 5) = 3", "4 - ((x + 1) + y) = 0",
            "((x + 1) + 5) / 2 = y", "sgn((x + 1) + 2) = 1", "3x = 6 + 9y", "7 = 2 + 4x + y", "a + (3b + c) = 9", "7 = x + 2 + y", "y + (x + 2) = 7", "3 = x + 2 + 7",
            "2 * 3x = 12", "(2 * 3)x = 12", "x + 2 = 5", "3y + x = 7 + 2x", "2x + 3x = 10", "x * x = 4", "0.5x = 0.25", "-3x = 9", "x / 2 + 1 = 3", "2(x + 1) + 3 = 9"]


def contexts(texts, rng, n):
    """embed start texts as operands so that 'every position' includes deep ones"""
    frames = ["(%s) + z", "z + (%s)", "(%s) * 3", "3 * (%s)", "(%s) - y", "y - (%s)", "(%s) / 2", "2 / (%s)", "(%s)^2", "2^(%s)",
              "-(%s)", "sgn(%s)", "%s = 4", "4 = %s", "z + ((%s) * y)", "(y - (%s)) / x"]
    out = []
    for t in rng.sample(texts, min(n, len(texts))):
        if "=" in t:
            continue
        out.append(rng.choice(frames) % t)
    return out


def test_json_inputs():
    out = []
    for f in sorted(glob.glob(os.path.join(REPO, "mathy_core", "rules", "*.test.json"))):
        try:
            d = json.load(open(f))
        except Exception:  # noqa
            continue
        for sect in ("valid", "invalid"):
            for ex in d.get(sect, []):
                if isinstance(ex, dict) and isinstance(ex.get("input"), str):
                    out.append(ex["input"])
                if isinstance(ex, dict) and isinstance(ex.get("output"), str):
                    out.append(ex["output"])
    return out


def generator_outputs(seed, n):
    import random as _r
    from mathy_core import problems as P
    out = []
    st = _r.getstate()
    try:
        _r.seed(seed)
        gens = [lambda: P.gen_simplify_multiple_terms(3), lambda: P.gen_simplify_multiple_terms(4, op="+"),
                lambda: P.gen_binomial_times_binomial(), lambda: P.gen_binomial_times_monomial(),
                lambda: P.gen_combine_terms_in_place(3, 5), lambda: P.gen_commute_haystack(3, 5),
                lambda: P.gen_move_around_blockers_one(2), lambda: P.gen_move_around_blockers_two(2)]
        for i in range(n):
            try:
                out.append(gens[i % len(gens)]()[0])
            except BaseException:  # noqa  (C17's concern)
                pass
    finally:
        _r.setstate(st)
    return out


EQUATION_SIDES = ["x", "2", "2x", "x + 2", "2x + 3", "x - 2", "3 - x", "(x + 1) * 2", "2(x + 1)", "(x + 1)^2", "-(x + 1)", "4 - (x + 1)",
                  "sgn(x + 1)", "(x + 3) / 2", "2 / (x + 3)", "0x", "1x", "x + y", "2x + y + 1", "x^2 + x", "2^(x + 1)", "3x^2", "x + 2 + 7",
                  "7 + (x + 2)", "-x + 3", "0.5x + 1", "x * 2 + 1", "(x + 1) + (y + 2)", "0", "y"]


def equations(quick):
    out = []
    sides = EQUATION_SIDES
    rights = ["3", "x", "2x + 1", "0", "y", "x + y", "2 + 4x"]
    for l in sides:
        for r in rights:
            out.append("%s = %s" % (l, r))
            out.append("%s = %s" % (r, l))
    if not quick:
        for l, r in itertools.product(sides, repeat=2):
            out.append("%s = %s" % (l, r))
    return out


def build_const(v):
    from mathy_core.expressions import ConstantExpression
    return ConstantExpression(v)
