"""REWRITE family: shared runner for C01, C02, C04, C06, C07 (single steps and probes)."""
import json
import os
import random
import re

from . import common, rewrite, tlc, parsefam
from .common import Result, Violation

ALL_BRANCHES = {"assoc.left_child_up", "assoc.right_child_up", "comm.equation", "comm.chain_add", "comm.chain_mul", "comm.swap_add", "comm.swap_mul",
                "fold.negation_simple", "fold.simple", "fold.simple_var_mult", "fold.chained_right_deep", "fold.chained_right", "fold.chained_right_left",
                "fold.chained_right_left_left", "fold.chained_left_left_right", "dist.sum_on_left", "dist.sum_on_right", "inverse.negative_denominator", "inverse.plain",
                "restate.subtract_negative_variable", "restate.subtract_negative_constant", "restate.subtract_term_with_constant", "restate.subtraction",
                "restate.add_neg_const", "restate.add_neg_const_var", "restate.add_neg_const_var_exp", "varmul.simple", "varmul.chained", "varmul.chained_left_right",
                "move.const_of_multiply", "move.addition", "factor.simple", "factor.chained_both", "factor.chained_right", "factor.chained_right_left",
                "factor.chained_left", "factor.chained_left_right"}
STRUCT = {"earlier_result_changed_by_later_calls", "vars", "context", "source_modified", "shares_nodes_with_source", "result_not_expression", "worked_on_another_node"}
CLAUSES = {
    "C01": {"value", "earlier_result_changed_by_later_calls"},
    "C02": {"solutions", "divides_by_zero", "earlier_result_changed_by_later_calls"},
    "C04": {"roundtrip"},
    "C06": {"raises_after_can_apply", "result_not_expression", "can_apply_raises", "can_apply_modifies_tree",
            "can_apply_not_deterministic", "find_nodes_disagrees", "r_index_wrong", "find_node_not_first",
            "answer_depends_on_rule_history"},
    "C07": STRUCT | {"wf", "arity"},
}


def of_interest(prop, clause):
    want = CLAUSES[prop]
    if clause in want:
        return True
    if prop == "C07" and (clause.startswith("wf_") or clause.startswith("arity_") or clause == "noroot"):
        return True
    return False


# ---------------------------------------------------------------- signatures
def _abs_const(num, den, ex):
    if ex in ("big", "repr"):
        return "C"
    if den == 0:
        return "nan"
    if den == 1:
        return {0: "0", 1: "1", -1: "-1"}.get(num, "+n" if num > 0 else "-n")
    return "+q" if num > 0 else "-q"


def pattern(h, node, depth=4):
    """abstract neighbourhood of `node` in heap h: the subtree of its parent cut at `depth`, operands
    abstracted (variables renamed by first occurrence), plus the kinds on the path to the root."""
    names = {}
    p = h["p"][node - 1]
    top = p if p else node

    def show(i, d):
        if i == 0:
            return "_"
        k = h["kind"][i - 1]
        mark = "@" if i == node else ""
        if k == "c":
            return mark + _abs_const(h["num"][i - 1], h["den"][i - 1], h["ex"][i - 1])
        if k == "v":
            v = h["vid"][i - 1]
            names.setdefault(v, "abcdefg"[min(len(names), 6)])
            return mark + names[v]
        if d == 0:
            return mark + k + "(..)"
        l, r = h["l"][i - 1], h["r"][i - 1]
        if k in ("neg", "fact", "sgn", "abs"):
            return "%s%s(%s)" % (mark, k, show(l or r, d - 1))
        return "%s%s(%s,%s)" % (mark, k, show(l, d - 1), show(r, d - 1))
    body = show(top, depth)
    up = []
    q = h["p"][top - 1]
    guard = 0
    while q and guard < 50:
        up.append(h["kind"][q - 1])
        q = h["p"][q - 1]
        guard += 1
    return body + ("^" + ">".join(up) if up else "")


def signature(prop, ev, clauses):
    cl = ",".join(sorted(c for c in clauses))
    if ev["typ"] == "probe":
        if ev.get("exc"):
            # a raising applicability check: root cause = rule, exception class, and whether a constant beyond 64 bits is involved
            big = "bigconst" if any(e == "big" for e in ev["hb"].get("ex", [])) else "-"
            return "%s|can_apply_raises|%s%s|probe|%s|%s" % (prop, ev["rule"], ":" + ev["opt"] if ev["opt"] else "", ev["exc"], big)
        return "%s|%s|%s%s|probe" % (prop, cl, ev["rule"], ":" + ev["opt"] if ev["opt"] else "")
    if ev["typ"] == "intact":
        return "%s|%s|result of %s" % (prop, cl, ev["rule"])
    if ev["typ"] == "reprobe":
        return "%s|%s|after %s" % (prop, cl, ev["rule"].split("@")[0])
    if ev["typ"] == "print":
        return "%s|%s|print|%s" % (prop, cl, parsefam.classify(ev["text"]))
    if ev["typ"] == "step" and ev.get("printed", "").startswith("<str() raised ValueError") and \
            any(len(b.get("dg", [])) > 4300 and b.get("sc", 0) == 0 for b in ev.get("ha", {}).get("big", [])):
        # one root cause whatever the rule and the surrounding tree: CPython refuses int -> text beyond 4300 digits
        return "%s|%s|integer constant longer than 4300 digits cannot be printed" % (prop, cl)
    try:
        pat = pattern(ev["hb"], ev["node"])
    except Exception:  # noqa
        pat = "?"
    return "%s|%s|%s%s|%s" % (prop, cl, ev["rule"], ":" + ev["opt"] if ev["opt"] else "", pat)


# ---------------------------------------------------------------- domains
def start_texts(ctx, prop, res):
    rng = random.Random(ctx.seed * 101 + 7)
    q = ctx.quick
    texts = []
    parts = []
    if prop in ("C01", "C04", "C06", "C07"):
        sents = parsefam.tlc_sentences(ctx, res, 5)
        sent_texts = [parsefam.render(s, 1) for s in sents if "=" not in s]
        if q:
            sent_texts = rng.sample(sent_texts, min(len(sent_texts), {"C01": 900, "C04": 900, "C06": 1500, "C07": 700}[prop]))
        extra = []
        for s in rng.sample(sents, min(len(sents), 300 if q else 3000)):
            m = rng.choice(parsefam.OPERAND_VARIANTS[:5])
            if "=" not in s:
                extra.append(parsefam.render(parsefam.substitute(s, m), 1))
        tl = rewrite.term_level(3, rewrite.TERMS_Q)
        tl2 = rewrite.term_level(2, rewrite.TERMS_Q)
        tl3 = [t for t in tl if t not in set(tl2)]
        n3 = {"C01": 1500, "C04": 600, "C06": 600, "C07": 500}[prop] if q else 30000
        pick = tl2 + rng.sample(tl3, min(len(tl3), n3))
        ctxs = rewrite.contexts(pick, rng, {"C01": 500, "C04": 400, "C06": 300, "C07": 1200}[prop] if q else 12000)
        gens = rewrite.generator_outputs(ctx.seed, 120 if q else 3000)
        forms = rewrite.FORMS + rewrite.contexts(rewrite.FORMS, rng, 40 if q else 400)
        texts = sent_texts + extra + pick + ctxs + rewrite.test_json_inputs() + gens + forms + rewrite.SHARED_ID_FORMS + [t for t in rewrite.HUGE_FORMS if "=" not in t] + rewrite.BIG_EXPONENT_FORMS
        parts.append("%d/%d TLC-emitted sentences (<= 5 tokens) + %d operand variants; %d term-level trees (16 term forms, + - * /, every grouping, <= 3 leaves); "
                     "%d embeddings under + - * / ^ neg sgn = ; the inputs/outputs of every rules/*.test.json example; %d generator outputs; the documented alternate tree forms, their additive analogues and special value classes (rewrite.FORMS / EQ_FORMS)"
                     % (len(sent_texts), len(sents), len(extra), len(pick), len(ctxs), len(gens)))
        if prop in ("C04", "C06", "C07"):
            eqs = rewrite.equations(True)
            texts += rng.sample(eqs, min(len(eqs), 150 if q else len(eqs))) + rewrite.EQ_FORMS + rewrite.SHARED_ID_EQ_FORMS
    if prop == "C02":
        eqs = rewrite.equations(q)
        more = []
        tl2 = rewrite.term_level(2, rewrite.TERMS_Q)
        for t in rng.sample(tl2, min(len(tl2), 200 if q else 1500)):
            more.append("%s = %s" % (t, rng.choice(["3", "x", "2x + 1", "y"])))
            more.append("%s = %s" % (rng.choice(["0", "x", "y + 1"]), t))
        texts = eqs + more + [t for t in rewrite.test_json_inputs() if "=" in t] + rewrite.EQ_FORMS + rewrite.SHARED_ID_EQ_FORMS + rewrite.NUMPY_ZERO_EQ_FORMS
        parts.append("%d equations L = R over %d side forms (addend at top level, inside a product, quotient, power base/exponent, negation, "
                     "subtrahend, function argument; coefficients 0 and 1; one and two variables) + %d term-level sides + test.json equations"
                     % (len(eqs), len(rewrite.EQUATION_SIDES), len(more)))
    seen = set()
    uniq = [t for t in texts if not (t in seen or seen.add(t))]
    return uniq, "; ".join(parts)


def focus_env(prop):
    # which expensive clause groups the trace specification evaluates for this property
    return {"F_IMPL": "1" if prop in ("C01", "C06") else "0",
            "F_VALUE": "1" if prop in ("C01",) else "0",
            "F_SOL": "1" if prop in ("C02",) else "0",
            "F_RT": "1" if prop in ("C04",) else "0"}


def run_family(ctx, cases, prop):
    res = Result()
    if cases is None and prop == "C01":
        # model level: the implementation-shaped rules (RulesImpl.tla) satisfy the relational contract on every term of the
        # bounded domain, at every node, for every rule instance - checked by TLC without running any code. It speaks for
        # the code as long as the trace-level drift between the real rules and RulesImpl is zero (reported below).
        for cfg in (["MC_RulesImpl_quick.cfg"] if ctx.quick else ["MC_RulesImpl_thorough.cfg", "MC_RulesImpl_sessions.cfg"]):
            m = tlc.run("MC_RulesImpl", cfg, ctx.work, workers=16, timeout=3400, xmx="10g")
            res.add_tlc(m, "rules model " + cfg)
            if not m.ok():
                raise tlc.TLCError("RulesImpl violates the relational contract (%s): a rule design that changes the value\n%s" % (m.violated, m.out[-3000:]))
            res.extra.setdefault("rules_model_terms", []).append(m.distinct)
    if cases is None:
        texts, res.rule = start_texts(ctx, prop, res)
        res.exhaustive = False
    else:
        OPT = "[python -O] "
        texts = [c["second"][0] if c.get("second") else c["text"] for c in cases if not c["text"].startswith(OPT)]
        opt_texts = [(c["second"][0] if c.get("second") else c["text"][len(OPT):]) for c in cases if c["text"].startswith(OPT)]
        res.rule = "replay"
    from .common import Pool
    jobs = [(t, prop == "C06", (8 if t in set(rewrite.NUMPY_ZERO_EQ_FORMS) else True) if prop == "C02" else False) for t in texts]
    if prop in ("C01", "C07") and cases is None:
        rng3 = random.Random(ctx.seed + 17)
        pick2 = set(rng3.sample(texts, min(len(texts), 250 if ctx.quick else 5000))) | set(rewrite.FORMS + rewrite.EQ_FORMS + rewrite.SHARED_ID_FORMS + rewrite.SHARED_ID_EQ_FORMS)
        special2 = set(rewrite.FORMS + rewrite.EQ_FORMS)
        jobs = [(t, False, False, (8 if t in special2 else 3) if t in pick2 else 0) for t in texts]
        res.rule += "; for the special forms and a sample of %d texts also: find_nodes() of every rule on one tree, a first step applied in place, then every rule at every node of that very tree" % len(pick2)
    elif prop in ("C01", "C07"):
        jobs = [(t, False, False, 6) for t in texts]
    if prop == "C06" and cases is None:
        # two-step derivations asked about again: every rule object is asked about (and applied to) trees that only a rewrite can produce
        special = rewrite.UNDEF_FORMS + rewrite.HUGE_FORMS + rewrite.FORMS + rewrite.EQ_FORMS
        rng2 = random.Random(ctx.seed + 6)
        jobs = [(t, True, False) for t in texts if t not in set(special)] + [(t, True, 8) for t in special] + \
               [(t, True, True) for t in rng2.sample(texts, min(len(texts), 150 if ctx.quick else 3000))]
        res.rule += "; a second round of asking + applying (same rule objects) on up to 8 first-step results of every special form (incl. %d forms whose fold leaves a nan / inf / zero coefficient) and on 3 results of a sample" % len(rewrite.UNDEF_FORMS)
    elif prop == "C06":
        jobs = [(t, True, 8) for t in texts]
    with Pool(16) as pool:
        events = [e for l in pool.map(rewrite.events_for_text, jobs, chunksize=20) for e in l]
    if (cases is None and prop in ("C01", "C02", "C06", "C07")) or (cases is not None and opt_texts):
        # the same sessions in an interpreter started with -O for the special forms and a sample
        import subprocess
        import sys
        rng4 = random.Random(ctx.seed + 23)
        special = [t for t in rewrite.FORMS + rewrite.EQ_FORMS + rewrite.HUGE_FORMS[1:] if t in set(texts)]
        ojobs = [(t, prop == "C06", False) for t in (special + rng4.sample(texts, min(len(texts), 150 if ctx.quick else 3000)) if cases is None else opt_texts)]
        chunks = [ojobs[i::8] for i in range(8)]
        procs = [subprocess.Popen([sys.executable, "-O", "-m", "harness.optchild"], cwd=common.ROOT, stdin=subprocess.PIPE, stdout=subprocess.PIPE, stderr=subprocess.DEVNULL,
                                  env=dict(os.environ, PYTHONPATH=common.REPO)) for _ in chunks]
        for pr, ch in zip(procs, chunks):
            pr.stdin.write(json.dumps(ch).encode()); pr.stdin.close()
        nopt = 0
        for pr in procs:
            doc = json.loads(pr.stdout.read().decode() or '{"debug": true, "events": []}')
            pr.wait()
            if doc["debug"]:
                raise tlc.TLCError("the -O child interpreter did not run optimised")
            events += doc["events"]
            nopt += len(doc["events"])
        res.extra["events_from_python_O_child"] = nopt
        res.rule += "; the special forms and %d sampled texts again in a child interpreter started with -O (no assert statements)" % (len(ojobs) - len(special))
    if prop == "C04":
        ptexts = list(texts)
        if cases is None:
            # model level: the printer model round-trips through the reference grammar for every parser-producible term up to the depth bound
            pm = tlc.run("MC_Printer", "MC_Printer_quick.cfg" if ctx.quick else "MC_Printer_thorough.cfg", ctx.work, workers=16, timeout=3000, xmx="8g")
            res.add_tlc(pm, "printer model")
            if not pm.ok():
                raise tlc.TLCError("the printer model does not round-trip through the reference grammar (%s): a missing-parenthesis design\n%s" % (pm.violated, pm.out[-2500:]))
            res.extra["printer_model_terms"] = pm.distinct
            sents = parsefam.tlc_sentences(ctx, res, 5 if ctx.quick else 6)
            for sn in sents:
                ptexts.append(parsefam.render(sn, 1))
                for m in parsefam.OPERAND_VARIANTS[:3]:
                    if any(t in m for t in sn):
                        ptexts.append(parsefam.render(parsefam.substitute(sn, m), 1))
            ptexts += parsefam.CURATED + parsefam.LONG_LITERALS + parsefam.COEF_POWER_FORMS
            res.rule += "; str(parse(s)) parsed back for every TLC-emitted sentence (<= %d tokens, with operand variants) and curated text" % (5 if ctx.quick else 6)
        with Pool(16) as pool:
            events += [e for l in pool.map(rewrite.print_event, sorted(set(ptexts)), chunksize=200) for e in l]
            if cases is None:
                events += [e for l in pool.map(rewrite.print_event, rewrite.big_count_prints(), chunksize=1) for e in l]
                res.rule += "; texts with 60..170 function calls / 30..85 parenthesised products, printed as parsed and after ONE distributive step at the root (twice as many)"
    if cases is not None and cases and "k" in cases[0]:
        want = {(c["text"], c.get("rule"), c.get("opt"), c.get("k")) for c in cases}
        events = [e for e in events if (e["text"], e["rule"], e["opt"], e.get("k")) in want or e["typ"] == "probe"]
    fails, st = tlc.validate_sharded("TraceRewrite", "TraceRewrite.cfg", events, ctx.work, shard_size=max(200, len(events) // 48 + 1),
                                     timeout=2400, env=focus_env(prop))
    res.states += st["distinct"]; res.transitions += st["generated"]
    steps = [e for e in events if e["typ"] == "step"]
    res.traces = len(events)
    res.evaluations = len(events)
    res.distinct_nontrivial = len({(e["text"], e["rule"], e["opt"], e["k"]) for e in steps})
    if prop == "C02":
        res.rule += "; plus a second step (same rule objects) from up to three first-step results per equation"
    res.rule += " | every rule instance (11) at every node where the real can_apply_to is true; non-trivial = distinct (start text, rule, option, node) steps"
    by_rule = {}
    for e in steps:
        by_rule[e["rule"] + (":" + e["opt"] if e["opt"] else "")] = by_rule.get(e["rule"] + (":" + e["opt"] if e["opt"] else ""), 0) + 1
    notes = {}
    for cl in fails.values():
        for c in cl:
            if c.startswith("note_"):
                notes[c] = notes.get(c, 0) + 1
    for dk in ("drift_impl_applicability", "drift_impl_result", "drift_impl_probe", "note_impl_unmodelled"):
        res.extra[dk] = sum(1 for cl in fails.values() if dk in cl)
    branches = {}
    for cl in fails.values():
        for c in cl:
            if c.startswith("branch:"):
                branches[c[7:]] = branches.get(c[7:], 0) + 1
    if branches:
        res.extra["impl_branches_hit"] = dict(sorted(branches.items()))
        res.extra["impl_branches_never_hit"] = sorted(ALL_BRANCHES - set(branches))
    drift_examples = [events[eid - 1] for eid, cl in sorted(fails.items()) if any(c.startswith("drift_impl") for c in cl)][:5]
    res.extra["drift_impl_examples"] = [{"text": e["text"], "rule": e["rule"], "opt": e["opt"], "k": e.get("k"), "printed": e.get("printed")} for e in drift_examples]
    res.extra["drift_str_vs_printer_model"] = sum(1 for cl in fails.values() if "drift_printer_model" in cl)
    res.extra.update({"validator": st, "start_texts": len(texts), "steps": len(steps), "probes": len(events) - len(steps),
                      "steps_by_rule": by_rule, "skipped": notes})
    if steps:
        e = steps[len(steps) // 2]
        res.samples = [{"text": e["text"], "rule": e["rule"], "opt": e["opt"], "node_inorder": e["k"], "outcome": e["outcome"], "printed": e["printed"]}]
    for eid, cl in sorted(fails.items()):
        mine = [c for c in cl if of_interest(prop, c)]
        if not mine:
            continue
        e = events[eid - 1]
        what = "%s%s at in-order node %s of %r -> %r: %s" % (e["rule"], ":" + e["opt"] if e["opt"] else "", e.get("k", "-"), e["text"], e.get("printed", ""), mine)
        res.violations.append(Violation(signature(prop, e, mine), what, {"text": e["text"], "rule": e["rule"], "opt": e["opt"], "k": e.get("k"), "second": e.get("second")}, mine))
    return res
