"""Setup-time sanity: every spec module parses (SANY) and the repo imports."""
import glob, os, subprocess, sys
from . import common
from .tlc import JAR, SPEC_DIR

def main():
    bad = 0
    mods = sorted(glob.glob(os.path.join(SPEC_DIR, "*.tla")))
    from concurrent.futures import ThreadPoolExecutor
    def sany(m):
        p = subprocess.run(["java", "-cp", JAR, "tla2sany.SANY", os.path.basename(m)], cwd=SPEC_DIR,
                           stdout=subprocess.PIPE, stderr=subprocess.STDOUT, text=True)
        ok = p.returncode == 0 and "error" not in p.stdout.lower().replace("semantic errors:\n", "")
        return m, p.returncode == 0 and "*** Errors" not in p.stdout and "Fatal" not in p.stdout, p.stdout
    with ThreadPoolExecutor(8) as ex:
        for m, ok, out in ex.map(sany, mods):
            if not ok:
                bad += 1
                print("SANY FAILED", m); print(out[-1500:])
    import mathy_core  # noqa
    print("selfcheck: %d spec modules parsed, %d failed; mathy_core imports from %s" % (len(mods), bad, os.path.dirname(mathy_core.__file__)))
    return 1 if bad else 0

if __name__ == "__main__":
    sys.exit(main())
