"""Binary tree shapes (each node has 0, left-only, right-only or 2 children) and builders."""
from functools import lru_cache
from . import common  # noqa


@lru_cache(maxsize=None)
def shapes(n):
    """All shapes with exactly n nodes as nested tuples (left, right); None = empty."""
    if n == 0:
        return (None,)
    out = []
    for k in range(n):
        for l in shapes(k):
            for r in shapes(n - 1 - k):
                out.append((l, r))
    return tuple(out)


@lru_cache(maxsize=None)
def full_shapes(n):
    """full binary trees (every node has 0 or 2 children) with exactly n nodes (n odd)"""
    if n == 1:
        return ((None, None),)
    out = []
    for k in range(1, n - 1, 2):
        for l in full_shapes(k):
            for r in full_shapes(n - 1 - k):
                out.append((l, r))
    return tuple(out)


def shapes_upto(n):
    return [s for k in range(1, n + 1) for s in shapes(k)]


def size(s):
    return 0 if s is None else 1 + size(s[0]) + size(s[1])


def mirror(s):
    return None if s is None else (mirror(s[1]), mirror(s[0]))


def build_btn(s, same_id=False):
    from mathy_core.tree import BinaryTreeNode
    if s is None:
        return None
    return BinaryTreeNode(build_btn(s[0], same_id), build_btn(s[1], same_id), id="same" if same_id else None)


def build_uniform_expr(s):
    """expression tree in which nothing but object identity distinguishes nodes of equal arity:
    every leaf is the constant 4, every binary node an Add, every unary node a Negate, all ids equal"""
    from mathy_core.expressions import AddExpression, NegateExpression, ConstantExpression
    if s is None:
        return None
    l = build_uniform_expr(s[0])
    r = build_uniform_expr(s[1])
    if l is not None and r is not None:
        n = AddExpression(l, r)
    elif l is None and r is None:
        n = ConstantExpression(4)
    elif l is not None:
        n = NegateExpression(l, child_on_left=True)
    else:
        n = NegateExpression(r, child_on_left=False)
    n.id = "same"
    return n


def build(s, cls):
    if cls == "btn":
        return build_btn(s)
    if cls == "btn_sameid":
        return build_btn(s, True)
    if cls == "uniform":
        return build_uniform_expr(s)
    return build_expr(s)


def build_expr(s, counter=None):
    """MathExpression-typed tree of the given shape; kinds rotate over the concrete classes that fit
    the arity (unary nodes with the operand on the side the shape says)."""
    from mathy_core.expressions import (AddExpression, MultiplyExpression, SubtractExpression, DivideExpression,
                                        PowerExpression, NegateExpression, SgnExpression, FactorialExpression,
                                        ConstantExpression, VariableExpression)
    counter = counter if counter is not None else [0]
    if s is None:
        return None
    counter[0] += 1
    k = counter[0]
    l = build_expr(s[0], counter)
    r = build_expr(s[1], counter)
    if l is not None and r is not None:
        cls = [AddExpression, MultiplyExpression, SubtractExpression, DivideExpression, PowerExpression][k % 5]
        return cls(l, r)
    if l is None and r is None:
        if k % 2 == 0:
            return VariableExpression("xyz"[k % 3])
        # int, whole-valued float, decimal and negative constants
        return ConstantExpression([k, float(k), k + 0.5, -k][(k // 2) % 4])
    cls = [NegateExpression, SgnExpression, FactorialExpression][k % 3]
    if l is not None:
        return cls(l, child_on_left=True)
    return cls(r, child_on_left=False)
