"""Run TLC (always under a timeout), shard trace validation across JVMs, parse verdict lines.

Every TLC run goes through `run()`; every run has its own -metadir under the work dir, is
wrapped in `timeout`, and returns the parsed statistics (states generated / distinct), the
tuples the specification printed with PrintT, and whether TLC itself finished cleanly.
"""
import json
import os
import re
import subprocess
import time
from concurrent.futures import ThreadPoolExecutor

JAR = "/opt/veriftools/tla/tla2tools.jar:/opt/veriftools/tla/CommunityModules-deps.jar"
SPEC_DIR = os.path.join(os.path.dirname(os.path.dirname(os.path.abspath(__file__))), "spec")


class TLCError(Exception):
    """Machinery failure (spec does not parse, TLC crashed, timeout)."""


class TLCResult:
    def __init__(self):
        self.rc = None
        self.out = ""
        self.generated = 0
        self.distinct = 0
        self.printed = []  # parsed PrintT tuples (python lists)
        self.violated = None  # name of violated invariant/property, if any
        self.wall = 0.0
        self.cmd = ""
        self.coverage = {}  # action name -> (distinct, generated) when -coverage was requested
        self.depth = 0

    def ok(self):
        return self.rc == 0 and self.violated is None


_STATS = re.compile(r"(\d+) states generated, (\d+) distinct states found")
_SIMSTATS = re.compile(r"The number of states generated: (\d+)")
_INV = re.compile(r"Error: Invariant (\S+) is violated")
_PROP = re.compile(r"Error: (?:Action|Temporal) propert(?:y|ies) (\S+)?.*violated")
_DEPTH = re.compile(r"The depth of the complete state graph search is (\d+)")
_COV = re.compile(r"^<(\w+) line \d+, col \d+ to line \d+, col \d+ of module (\w+)>: (\d+):(\d+)")


def parse_value(s, i=0):
    """Parse a TLC-printed value (sequences << >>, sets { }, strings, ints, TRUE/FALSE,
    records [a |-> v]) starting at s[i]; returns (python value, next index)."""
    n = len(s)
    while i < n and s[i] in " \n\t\r":
        i += 1
    if s.startswith("<<", i):
        i += 2
        items = []
        while True:
            while i < n and s[i] in " \n\t\r,":
                i += 1
            if s.startswith(">>", i):
                return items, i + 2
            v, i = parse_value(s, i)
            items.append(v)
    if s[i] == "{":
        i += 1
        items = []
        while True:
            while i < n and s[i] in " \n\t\r,":
                i += 1
            if s[i] == "}":
                return {"set": items}, i + 1
            v, i = parse_value(s, i)
            items.append(v)
    if s[i] == "[":
        i += 1
        rec = {}
        while True:
            while i < n and s[i] in " \n\t\r,":
                i += 1
            if s[i] == "]":
                return rec, i + 1
            m = re.compile(r"(\w+)\s*\|->\s*").match(s, i)
            if not m:
                raise ValueError("bad record at %d: %r" % (i, s[i : i + 40]))
            v, i = parse_value(s, m.end())
            rec[m.group(1)] = v
    if s[i] == '"':
        j = i + 1
        buf = []
        while s[j] != '"':
            if s[j] == "\\":
                j += 1
            buf.append(s[j])
            j += 1
        return "".join(buf), j + 1
    m = re.compile(r"-?\d+").match(s, i)
    if m:
        return int(m.group(0)), m.end()
    m = re.compile(r"[A-Za-z_]\w*").match(s, i)
    if m:
        w = m.group(0)
        return (True if w == "TRUE" else False if w == "FALSE" else w), m.end()
    raise ValueError("cannot parse TLC value at %d: %r" % (i, s[i : i + 40]))


def extract_printed(out):
    """All top-level `<<"TAG", ...>>` tuples printed by PrintT (possibly wrapped over lines)."""
    res = []
    i = 0
    out = out.replace('<< "', '<<"')
    while True:
        j = out.find('<<"', i)
        if j < 0:
            break
        # only accept tuples at the start of a line (PrintT output), not inside error traces
        if j > 0 and out[j - 1] != "\n":
            i = j + 3
            continue
        try:
            v, k = parse_value(out, j)
            res.append(v)
            i = k
        except Exception:
            i = j + 3
    return res


def run(module, cfg, workdir, env=None, workers=1, timeout=900, simulate=None, depth=None,
        seed=None, coverage=False, xmx="3g", extra=None, spec_dir=None, deque=False):
    """Run TLC on spec/<module>.tla with spec/<cfg>. Returns TLCResult; raises TLCError on
    machinery failure (parse error, crash, timeout)."""
    spec_dir = spec_dir or SPEC_DIR
    os.makedirs(workdir, exist_ok=True)
    meta = os.path.join(workdir, "meta-%s-%d-%d" % (module, os.getpid(), int(time.time() * 1e6) % 10**9))
    gc = "-XX:+UseParallelGC" if workers > 1 else "-XX:+UseSerialGC"
    cmd = ["timeout", "-k", "5", str(int(timeout)), "java", gc, "-Xmx" + xmx, "-Xss64m"]
    if deque:
        cmd.append("-Dtlc2.tool.queue.IStateQueue=StateDeque")
    cmd += ["-cp", JAR, "tlc2.TLC", "-workers", str(workers), "-metadir", meta,
            "-noGenerateSpecTE", "-config", cfg]
    if simulate:
        cmd += ["-simulate", simulate]
    if depth:
        cmd += ["-depth", str(depth)]
    if seed is not None:
        cmd += ["-seed", str(seed)]
    if coverage:
        cmd += ["-coverage", "1"]
    if extra:
        cmd += extra
    cmd.append(module)
    e = dict(os.environ)
    e.pop("JAVA_TOOL_OPTIONS", None)
    if env:
        e.update({k: str(v) for k, v in env.items()})
    r = TLCResult()
    r.cmd = " ".join(cmd)
    t0 = time.time()
    p = subprocess.run(cmd, cwd=spec_dir, env=e, stdout=subprocess.PIPE, stderr=subprocess.STDOUT, text=True)
    r.wall = time.time() - t0
    r.rc = p.returncode
    r.out = p.stdout
    subprocess.run(["rm", "-rf", meta])
    if p.returncode in (124, 137):
        raise TLCError("TLC timed out after %ss: %s" % (timeout, r.cmd))
    m = None
    for m in _STATS.finditer(r.out):
        pass
    if m:
        r.generated, r.distinct = int(m.group(1)), int(m.group(2))
    else:
        m = None
        for m in _SIMSTATS.finditer(r.out):
            pass
        if m:
            r.generated = r.distinct = int(m.group(1))
    m = _DEPTH.search(r.out)
    if m:
        r.depth = int(m.group(1))
    m = _INV.search(r.out)
    if m:
        r.violated = m.group(1)
    elif "is violated" in r.out:
        m = re.search(r"Error: .*?(\w+) is violated", r.out)
        r.violated = m.group(1) if m else "property"
    if coverage:
        for line in r.out.splitlines():
            m = _COV.match(line)
            if m:
                r.coverage[m.group(1)] = (int(m.group(3)), int(m.group(4)))
    r.printed = extract_printed(r.out)
    # TLC exit codes: 0 ok, 10-13 = violations (assumption 10, deadlock 11, safety 12, liveness 13); others = errors
    if r.rc not in (0, 10, 11, 12, 13):
        raise TLCError("TLC failed rc=%s\n%s\n%s" % (r.rc, r.cmd, r.out[-4000:]))
    if r.rc in (10, 11) :
        raise TLCError("TLC assumption/deadlock failure rc=%s\n%s\n%s" % (r.rc, r.cmd, r.out[-4000:]))
    return r


def validate_sharded(module, cfg, events, workdir, shard_size=1200, jobs=16, timeout=900,
                     env=None, xmx="2g", tag="ev"):
    """Pass (V): write `events` (list of dicts; each gets a global 1-based `eid`) into NDJSON
    shards, validate each shard with its own single-worker TLC JVM running the trace
    specification `module`, and collect the printed verdict tuples.

    Returns (fails, stats) where fails = {eid: [clause names]} and stats has generated /
    distinct / shards / wall. The trace specification must print <<"FAIL", eid, {clauses}>> for
    rejected events and <<"DONE", number_of_events_judged>> once per shard.
    """
    os.makedirs(workdir, exist_ok=True)
    shards = []
    for k in range(0, len(events), shard_size):
        path = os.path.join(workdir, "%s-%d-%05d.ndjson" % (tag, os.getpid(), k // shard_size))
        with open(path, "w") as f:
            for j, ev in enumerate(events[k : k + shard_size]):
                ev["eid"] = k + j + 1
                f.write(json.dumps(ev, separators=(",", ":")) + "\n")
        shards.append(path)

    def one(path):
        e = dict(env or {})
        e["TRACE_FILE"] = path
        return run(module, cfg, workdir, env=e, workers=1, timeout=timeout, xmx=xmx)

    t0 = time.time()
    fails = {}
    gen = dist = judged = 0
    with ThreadPoolExecutor(max_workers=jobs) as ex:
        results = list(ex.map(one, shards))
    for path, r in zip(shards, results):
        done = [p for p in r.printed if p and p[0] == "DONE"]
        if r.rc != 0 or not done:
            raise TLCError("trace validation did not complete for %s rc=%s\n%s" % (path, r.rc, r.out[-3000:]))
        judged += done[-1][1]
        gen += r.generated
        dist += r.distinct
        for p in r.printed:
            if p and p[0] == "FAIL":
                cl = p[2]["set"] if isinstance(p[2], dict) else p[2]
                fails[p[1]] = sorted(cl)
        os.remove(path)
    if judged != len(events):
        raise TLCError("trace validation judged %d of %d events" % (judged, len(events)))
    return fails, dict(generated=gen, distinct=dist, shards=len(shards), wall=time.time() - t0)
