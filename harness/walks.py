"""C09 driver: rewriting sessions on the real code, recorded as stateful traces."""
import random

from . import common, project, rewrite


def diff_old(prev, cur):
    """modifications of objects that existed in the previous universe snapshot"""
    out = []
    for f in ("l", "r", "p", "kind", "num", "den", "ex", "vid", "side"):
        a, b = prev[f], cur[f]
        for i in range(prev["n"]):
            if a[i] != b[i]:
                out.append([i + 1, f, str(a[i]), str(b[i])])
                if len(out) > 8:
                    return out
    return out


def compact_heap(root):
    o = project.ObjTable()
    h = rewrite.slim(project.snapshot(o, [root]))
    return h, o.of(root)


def applicable(root, persistent):
    nodes = rewrite.inorder(root)
    out = []
    for ri, (name, opt, rule) in enumerate(persistent):
        for k, n in enumerate(nodes):
            try:
                if rule.can_apply_to(n):
                    out.append((ri, k))
            except BaseException:  # noqa
                pass
    return out


def read_only_calls(root):
    """what a caller showing the tree to a user does between steps; none of it may change what comes next"""
    small = len(rewrite.inorder(root)) <= 40          # to_math_ml of a deep product takes exponential time
    for f in (lambda: root.terminal_text, lambda: root.to_math_ml() if small else "", lambda: root.to_list(), lambda: root.get_root(), lambda: str(root),
              lambda: [n.raw for n in root.to_list()], lambda: root.evaluate({"x": 2, "y": 3, "z": 5}), lambda: root.terminal_text):
        try:
            f()
        except BaseException:  # noqa
            pass


def do_step(cur_root, persistent, ri, k, objs, prev, style="clone"):
    """one session step: node k of the current root, rule ri applied - on a clone taken from the root (style 'clone'), or, as a
    caller that keeps one tree does, after find_nodes() of every rule on the current tree and IN PLACE (style 'inplace')"""
    name, opt, rule = persistent[ri]
    nd = rewrite.inorder(cur_root)[k]
    if style == "inplace":
        return do_step_inplace(cur_root, persistent, ri, k, nd)
    s = {"rule": name, "opt": opt, "k": k, "src": project.term(cur_root), "res": 0, "hr": {"n": 0}, "printed": "", "reparse": "-",
         "re": {"k": "c", "n": 0, "d": 1}, "changed": []}
    new_root = None
    s["style"] = style
    try:
        if style == "deepcopy":
            import copy
            work = copy.deepcopy(nd)              # the standard copy protocol brings the whole tree along (through the parent links)
        elif style == "pickle":
            import pickle
            work = pickle.loads(pickle.dumps(nd))
        else:
            work = nd.clone_from_root()
        change = rule.apply_to(work)
        res = change.result
        s["outcome"] = "ok"
        if res is not None and hasattr(res, "get_root"):
            new_root = res.get_root()
    except RecursionError:
        s["outcome"] = "RecursionError"
    except BaseException as e:  # noqa
        s["outcome"] = type(e).__name__
    cur_snap = project.snapshot(objs, [new_root] if new_root is not None else [])
    s["changed"] = diff_old(prev, cur_snap)
    if new_root is not None:
        try:
            s["hr"], s["res"] = compact_heap(new_root)
        except BaseException:  # noqa  (cyclic result etc.)
            s["hr"], s["res"] = {"n": 0}, 0
        read_only_calls(new_root)
        try:
            s["printed"] = str(new_root)
            try:
                s["re"] = project.term(rewrite.reparse(s["printed"]))
                s["reparse"] = "ok"
            except BaseException as e:  # noqa
                s["reparse"] = type(e).__name__
        except BaseException as e:  # noqa
            s["printed"] = "<str() raised %s>" % type(e).__name__
            s["reparse"] = "unprintable"
    return s, new_root, cur_snap, objs


def do_step_inplace(cur_root, persistent, ri, k, nd):
    name, opt, rule = persistent[ri]
    s = {"rule": name, "opt": opt, "k": k, "src": project.term(cur_root), "res": 0, "hr": {"n": 0}, "printed": "", "reparse": "-",
         "re": {"k": "c", "n": 0, "d": 1}, "changed": [], "style": "inplace"}
    for _, _, r in persistent:
        try:
            r.find_nodes(cur_root)          # leaves its bookkeeping (r_index) on the nodes of this very tree
        except BaseException:  # noqa
            pass
    new_root = None
    try:
        res = rule.apply_to(nd).result
        s["outcome"] = "ok"
        if res is not None and hasattr(res, "get_root"):
            new_root = res.get_root()
    except RecursionError:
        s["outcome"] = "RecursionError"
    except BaseException as e:  # noqa
        s["outcome"] = type(e).__name__
    objs = project.ObjTable()               # the old objects were changed on purpose: later steps are judged against the tree as it is now
    snap = project.snapshot(objs, [new_root] if new_root is not None else [])
    if new_root is not None:
        try:
            s["hr"], s["res"] = compact_heap(new_root)
        except BaseException:  # noqa
            s["hr"], s["res"] = {"n": 0}, 0
        read_only_calls(new_root)
        try:
            s["printed"] = str(new_root)
            try:
                s["re"] = project.term(rewrite.reparse(s["printed"]))
                s["reparse"] = "ok"
            except BaseException as e:  # noqa
                s["reparse"] = type(e).__name__
        except BaseException as e:  # noqa
            s["printed"] = "<str() raised %s>" % type(e).__name__
            s["reparse"] = "unprintable"
    return s, new_root, snap, objs


def walk(job):
    """job = (text, script) ; script: list of (rule index, in-order node) pairs, or ('random', seed, length)"""
    text, script = job
    common.process_noise(len(text))
    try:
        t0 = rewrite.parse(text)
    except BaseException:  # noqa
        return None
    persistent = rewrite.rules(pos=bool(common.pick(text, 2)))
    objs = project.ObjTable()
    prev = project.snapshot(objs, [t0])
    tr = {"text": text, "start": project.term(t0), "steps": [], "script": []}
    cur = t0
    if script and script[0] == "random":
        rng = random.Random(script[1])
        for _ in range(script[2]):
            app = applicable(cur, persistent)
            if not app:
                break
            # prefer variety: pick a rule first, then a node
            ris = sorted({a[0] for a in app})
            ri = rng.choice(ris)
            k = rng.choice([a[1] for a in app if a[0] == ri])
            style = ("inplace" if rng.random() < 0.4 else "clone") if (len(script) > 3 and script[3]) else "clone"
            s, new_root, prev, objs = do_step(cur, persistent, ri, k, objs, prev, style)
            tr["steps"].append(s); tr["script"].append([ri, k] + ([style] if style != "clone" else []))
            if new_root is None or s["outcome"] != "ok" or len(rewrite.inorder(new_root)) > 60:
                break
            cur = new_root
    else:
        for st in script:
            ri, k = st[0], st[1]
            style = st[2] if len(st) > 2 else "clone"
            nodes = rewrite.inorder(cur)
            if k >= len(nodes):
                break
            try:
                ok = persistent[ri][2].can_apply_to(nodes[k])
            except BaseException:  # noqa
                ok = False
            if not ok:
                break
            s, new_root, prev, objs = do_step(cur, persistent, ri, k, objs, prev, style)
            tr["steps"].append(s); tr["script"].append([ri, k] + ([style] if style != "clone" else []))
            if new_root is None or s["outcome"] != "ok":
                break
            cur = new_root
    return tr


def two_step_scripts(text):
    """all (step1, step2) scripts from one start text"""
    try:
        t0 = rewrite.parse(text)
    except BaseException:  # noqa
        return []
    persistent = rewrite.rules()
    out = []
    for ri, k in applicable(t0, persistent):
        try:
            nd = rewrite.inorder(t0.clone())[k]
            work = nd.clone_from_root()
            r = persistent[ri][2].apply_to(work).result.get_root()
        except BaseException:  # noqa
            out.append((text, [(ri, k)]))
            continue
        seconds = applicable(r, rewrite.rules())
        if not seconds:
            out.append((text, [(ri, k)]))
        for ri2, k2 in seconds:
            out.append((text, [(ri, k), (ri2, k2)]))
    return out


SEEDS = ["4x + 2x", "2x + 3y + x", "(x + 1) * 2", "2(x + 3) + 4x", "x * x^2 * 2", "2x * 3x", "4 + 3 * 2", "(4 * 2) * x", "5 + (3 + -1x)", "x^(2 - 2) * x^3",
         "6 / -z", "4 - 3x", "7 - -y", "x - (2 + y)", "2x^2 + 3x^2", "0.5x + 0.5x", "x / 2 + x / 2", "-(3 + 2)", "-x + -2x", "3 * (2x * y)",
         "(2x * 3) * y^2", "x + (y + x)", "(x + y) + x", "2^x * 2^3", "(x + 1)(x - 1)", "12 + 6", "12x + 6", "x^0 + x", "1 - 3^2", "2 * -3 - -x",
         "2x + 3 = 7", "3x = 6", "x + 2 + 7 = 3", "7 + (x + 2) = 3", "3 = x + 2 + 7", "2(x + 1) = 8", "4 = 2x - 2", "x = y + 2x", "3x + 7 = 2 + 4x", "0x = 0",
         "0.000002 * 0.0000003 * x + 0.5", "x * (0.0000004 * 0.0000002)", "(0.000002 / 3000000) * x + y", "1000000 + 0.0005 + x", "4000000.002 * 2 * x", "0.1 * 0.7 * y + 0.3",
         "3x + 4X + 2y", "X * x * 2", "2X + 3X + x", "4x * 2X^2 + y", "0.5x + 0.5y + 1", "0.5x^2 + 0.5x + y", "-6 + 4 + x", "12 + -8 + 2x",
         "(y + 4x) + 3x", "4x + 2 * 3x", "(y * 2x) * 3x", "5 + ((3 + x) + y)", "3x = 6 + 9y", "2 * ((x + 1) + 5) = 20", "x + -2y^2 = 3", "7 = 2 + 4x + y",
         "x - 2 = 3", "9 - 2x = 3", "-x = 4 + x", "x / 2 = 4", "x^2 = 4 + x^2", "y + (x + 2) = 7", "sgn(x) + 2 = 3", "5 = 3 + 2", "x + x = 2x", "1/2 x = 3",
         "10^400 * 2 + x", "7^365 + 1 + x", "2^1030 * x + 2^1030 * x", "(10^200)^2 + y",
         "7 - (2 + x) = 3", "x = 10 - (y + 2 + z)", "4 - (x + 1) = y", "9 = 3 - (x - 2)", "2 * (x + 3) - (4 + x) = 1", "-(x + 2) = 5", "x / (2 + y) = 3",
         "0^0.5 * x = 0", "(0.0^2)x = 0", "(4^0.5)x = 6", "(4 / 0)x + 2x", "(2 - 2) * x + 2x",
         "x + x * y + 3", "x + (x * y + 3)", "2x + (x^2 * y + z)", "(3 + y * x) + x", "x + (x / y + 3) = 4", "(x * y) * (z + 2)", "(12 + r) * (s + t) = 5"] + rewrite.SHARED_ID_EQ_FORMS[:6] + rewrite.SHARED_ID_FORMS[:5]


def norm_term(t):
    """plain dict form of a term as printed by TLC / produced by project.term, constants reduced"""
    from fractions import Fraction
    k = t["k"]
    if k == "c":
        if "dg" in t:
            return {"k": "c", "dg": list(t["dg"]), "sc": t["sc"], "sg": t["sg"]}
        if t["d"] == 0:
            return {"k": "c", "n": 0, "d": 0}
        f = Fraction(t["n"], t["d"])
        return {"k": "c", "n": f.numerator, "d": f.denominator}
    if k == "v":
        return {"k": "v", "id": t["id"]}
    if "c" in t and k in ("neg", "fact", "sgn", "abs"):
        return {"k": k, "c": norm_term(t["c"])}
    return {"k": k, "l": norm_term(t["l"]), "r": norm_term(t["r"])}


def walk_script(job):
    """replay one TLC-generated model session: job = (start term, [(rule, opt, path), ...], model's final term)"""
    from .props import c08
    start, script, final = job
    t0 = c08.build_json(start)
    persistent = rewrite.rules()
    index = {(n, o): i for i, (n, o, _) in enumerate(persistent)}
    objs = project.ObjTable()
    prev = project.snapshot(objs, [t0])
    tr = {"text": "model:" + str(t0), "start": project.term(t0), "steps": [], "script": [], "model_final": norm_term(final), "agree": True, "drift": "",
          "job": {"start": start, "script": [list(x) for x in script], "final": final}}
    cur = t0
    for rule, opt, path in script:
        node = c08.navigate(cur, path)
        nodes = rewrite.inorder(cur)
        k = next(i for i, n in enumerate(nodes) if n is node)
        ri = index[(rule, opt)]
        try:
            ok = persistent[ri][2].can_apply_to(node)
        except BaseException:  # noqa
            ok = False
        if not ok:
            tr["agree"] = False
            tr["drift"] = "real can_apply_to refuses the model's step %s:%s at %s" % (rule, opt, path)
            break
        s, new_root, prev, objs = do_step(cur, persistent, ri, k, objs, prev)
        tr["steps"].append(s); tr["script"].append([ri, k])
        if new_root is None or s["outcome"] != "ok":
            break
        cur = new_root
    if tr["agree"] and len(tr["steps"]) == len(script):
        try:
            real_final = norm_term(project.term(cur))
            if real_final != tr["model_final"]:
                tr["agree"] = False
                tr["drift"] = "real result differs from the model's result"
        except BaseException:  # noqa
            tr["agree"] = False
    return tr
