#!/bin/sh
# Offline setup: nothing to build. Verifies the tools the checks rely on are present and parses every spec with SANY.
set -e
cd "$(dirname "$0")"
command -v java >/dev/null
test -f /opt/veriftools/tla/tla2tools.jar
test -x /venv/bin/python
mkdir -p .work evidence replays
/venv/bin/python -m harness.selfcheck
