------------------------------- MODULE BigInt -------------------------------
(* Arbitrary-precision integers inside TLC: sign + little-endian limbs base 10^4.
   big = [s |-> -1 | 0 | 1, m |-> magnitude]; <<>> is 0; no trailing zero limbs. *)
EXTENDS Integers, Sequences
Base == 10000
RECURSIVE Trim(_)
Trim(m) == IF Len(m) > 0 /\ m[Len(m)] = 0 THEN Trim(SubSeq(m, 1, Len(m) - 1)) ELSE m
RECURSIVE MagFromNat(_)
MagFromNat(n) == IF n = 0 THEN <<>> ELSE <<n % Base>> \o MagFromNat(n \div Base)
BigOf(i) == IF i = 0 THEN [s |-> 0, m |-> <<>>] ELSE IF i > 0 THEN [s |-> 1, m |-> MagFromNat(i)] ELSE [s |-> -1, m |-> MagFromNat(-i)]
Lb(m, i) == IF i <= Len(m) THEN m[i] ELSE 0
MaxI(a, b) == IF a > b THEN a ELSE b
RECURSIVE AddMagR(_,_,_,_)
AddMagR(a, b, i, carry) ==
  IF i > MaxI(Len(a), Len(b)) THEN (IF carry = 0 THEN <<>> ELSE <<carry>>)
  ELSE LET t == Lb(a, i) + Lb(b, i) + carry IN <<t % Base>> \o AddMagR(a, b, i + 1, t \div Base)
AddMag(a, b) == AddMagR(a, b, 1, 0)
RECURSIVE CmpMagR(_,_,_)
CmpMagR(a, b, i) == IF i = 0 THEN 0 ELSE IF Lb(a, i) > Lb(b, i) THEN 1 ELSE IF Lb(a, i) < Lb(b, i) THEN -1 ELSE CmpMagR(a, b, i - 1)
CmpMag(a, b) == IF Len(a) > Len(b) THEN 1 ELSE IF Len(a) < Len(b) THEN -1 ELSE CmpMagR(a, b, Len(a))
RECURSIVE SubMagR(_,_,_,_)     \* requires a >= b
SubMagR(a, b, i, borrow) ==
  IF i > Len(a) THEN <<>> ELSE
  LET t == Lb(a, i) - Lb(b, i) - borrow IN IF t < 0 THEN <<t + Base>> \o SubMagR(a, b, i + 1, 1) ELSE <<t>> \o SubMagR(a, b, i + 1, 0)
SubMag(a, b) == Trim(SubMagR(a, b, 1, 0))
RECURSIVE MulLimbR(_,_,_,_)
MulLimbR(a, d, i, carry) == IF i > Len(a) THEN (IF carry = 0 THEN <<>> ELSE <<carry>>)
                            ELSE LET t == a[i] * d + carry IN <<t % Base>> \o MulLimbR(a, d, i + 1, t \div Base)
MulLimb(a, d) == IF d = 0 THEN <<>> ELSE MulLimbR(a, d, 1, 0)
RECURSIVE MulMagR(_,_,_)
MulMagR(a, b, j) == IF j > Len(b) THEN <<>> ELSE AddMag(MulLimb(a, b[j]), <<0>> \o MulMagR(a, b, j + 1))
MulMag(a, b) == Trim(MulMagR(a, b, 1))
BNeg(x) == [s |-> -x.s, m |-> x.m]
BAdd(x, y) == IF x.s = 0 THEN y ELSE IF y.s = 0 THEN x ELSE
  IF x.s = y.s THEN [s |-> x.s, m |-> AddMag(x.m, y.m)] ELSE
  LET c == CmpMag(x.m, y.m) IN IF c = 0 THEN BigOf(0) ELSE IF c > 0 THEN [s |-> x.s, m |-> SubMag(x.m, y.m)] ELSE [s |-> y.s, m |-> SubMag(y.m, x.m)]
BSub(x, y) == BAdd(x, BNeg(y))
BMul(x, y) == IF x.s = 0 \/ y.s = 0 THEN BigOf(0) ELSE [s |-> x.s * y.s, m |-> MulMag(x.m, y.m)]
RECURSIVE BPow(_,_)
BPow(x, e) == IF e = 0 THEN BigOf(1) ELSE IF e % 2 = 0 THEN LET h == BPow(x, e \div 2) IN BMul(h, h) ELSE BMul(x, BPow(x, e - 1))
RECURSIVE BFact(_)
BFact(n) == IF n <= 1 THEN BigOf(1) ELSE BMul(BigOf(n), BFact(n - 1))
BCmp(x, y) == IF x.s # y.s THEN (IF x.s > y.s THEN 1 ELSE -1) ELSE IF x.s = 0 THEN 0 ELSE x.s * CmpMag(x.m, y.m)
RECURSIVE ToIntMag(_)
ToIntMag(m) == IF Len(m) = 0 THEN 0 ELSE m[1] + Base * ToIntMag(Tail(m))
\* only for values known to fit (at most two limbs)
SmallInt(x) == x.s * ToIntMag(x.m)
IsSmall(x) == Len(x.m) <= 2
\* self-check against TLC's native arithmetic, evaluated at start-up of every run that uses the module
BigSelfCheck ==
  \A a \in -12..12, b \in -12..12 :
     /\ SmallInt(BMul(BigOf(a * 37), BigOf(b * 41))) = a * 37 * b * 41
     /\ SmallInt(BAdd(BigOf(a * 999), BigOf(b * 1001))) = a * 999 + b * 1001
     /\ SmallInt(BSub(BigOf(a * 999), BigOf(b * 1001))) = a * 999 - b * 1001
     /\ BCmp(BigOf(a), BigOf(b)) = (IF a > b THEN 1 ELSE IF a < b THEN -1 ELSE 0)
=============================================================================
