------------------------------- MODULE BigRat -------------------------------
(* Exact rationals over BigInt (no reduction; denominators positive) and comparison up to a relative tolerance:
   used to judge "up to floating-point rounding of constants the rule folded" for constants of any magnitude. *)
EXTENDS BigInt, Expr
BQ(n, d) == [n |-> n, d |-> d, ok |-> TRUE]
BadQ == [ok |-> FALSE]
BAbs(x) == [s |-> IF x.s = 0 THEN 0 ELSE 1, m |-> x.m]
RECURSIVE DigitsToBig(_,_)
DigitsToBig(ds, acc) == IF Len(ds) = 0 THEN acc ELSE DigitsToBig(Tail(ds), BAdd(BMul(acc, BigOf(10)), BigOf(Head(ds))))
\* the exact value of a constant leaf (digit-form constants are exact decimals)
ConstBQ(t) ==
  IF HasDigits(t) THEN BQ(IF t.sg < 0 THEN BNeg(DigitsToBig(t.dg, BigOf(0))) ELSE DigitsToBig(t.dg, BigOf(0)), BPow(BigOf(10), t.sc))
  ELSE IF t.d = 0 THEN BadQ
  ELSE BQ(BigOf(IF t.d < 0 THEN -t.n ELSE t.n), BigOf(IF t.d < 0 THEN -t.d ELSE t.d))
NormSign(n, d) == IF d.s < 0 THEN BQ(BNeg(n), BNeg(d)) ELSE BQ(n, d)
OpBQ(k, a, b) ==
  IF ~a.ok \/ ~b.ok THEN BadQ ELSE
  CASE k = "add" -> BQ(BAdd(BMul(a.n, b.d), BMul(b.n, a.d)), BMul(a.d, b.d))
    [] k = "sub" -> BQ(BSub(BMul(a.n, b.d), BMul(b.n, a.d)), BMul(a.d, b.d))
    [] k = "mul" -> BQ(BMul(a.n, b.n), BMul(a.d, b.d))
    [] k = "div" -> IF b.n.s = 0 THEN BadQ ELSE NormSign(BMul(a.n, b.d), BMul(a.d, b.n))
    [] OTHER -> BadQ
\* |a - b| <= 10^-tol * max(|a|, |b|)   (both zero: equal)
ApproxSame(a, b, tol) ==
  LET x == BMul(a.n, b.d)  y == BMul(b.n, a.d)
      diff == BAbs(BSub(x, y))
      big == IF BCmp(BAbs(x), BAbs(y)) >= 0 THEN BAbs(x) ELSE BAbs(y) IN
  BCmp(BMul(diff, BPow(BigOf(10), tol)), big) <= 0
=============================================================================
