------------------------------- MODULE EvalBig -------------------------------
(***************************************************************************)
(* The evaluation contract of C05.  Terms carry exact operands:             *)
(*   [k:"c", ty:"int", b: big]   [k:"c", ty:"float", q: <<n,d>>]             *)
(*   [k:"v", id]  with a context ctx: sequence of [id, st, ty, b, q]          *)
(*      st = "bound" | "none" | "absent"                                      *)
(* Three views of the value: the exact big integer (integer-pure trees),     *)
(* the exact small rational / NaN (trees through division or decimals),      *)
(* and the error contract (missing variable, unequal equation).              *)
(***************************************************************************)
EXTENDS BigInt, Numbers, FiniteSets
Binding(ctx, id) == LET S == {i \in 1..Len(ctx) : ctx[i].id = id} IN
                    IF S = {} THEN [st |-> "absent"] ELSE ctx[CHOOSE i \in S : TRUE]
UnK == {"neg", "fact", "sgn", "abs"}
RECURSIVE AnyMissing(_,_)
AnyMissing(t, ctx) == CASE t.k = "c" -> FALSE
                        [] t.k = "v" -> Binding(ctx, t.id).st # "bound"
                        [] t.k \in UnK -> AnyMissing(t.c, ctx)
                        [] OTHER -> AnyMissing(t.l, ctx) \/ AnyMissing(t.r, ctx)

(* ---- exact integer view ---- *)
NoInt == [ok |-> FALSE]
IntOf(b) == [ok |-> TRUE, v |-> b]
RECURSIVE IntVal(_,_)
IntVal(t, ctx) ==
  CASE t.k = "c" -> IF t.ty = "int" THEN IntOf(t.b) ELSE NoInt
    [] t.k = "v" -> LET bd == Binding(ctx, t.id) IN IF bd.st = "bound" /\ bd.ty = "int" THEN IntOf(bd.b) ELSE NoInt
    [] t.k = "neg" -> LET c == IntVal(t.c, ctx) IN IF c.ok THEN IntOf(BNeg(c.v)) ELSE NoInt
    [] t.k = "abs" -> LET c == IntVal(t.c, ctx) IN IF c.ok THEN IntOf([s |-> IF c.v.s = 0 THEN 0 ELSE 1, m |-> c.v.m]) ELSE NoInt
    [] t.k = "sgn" -> LET c == IntVal(t.c, ctx) IN IF c.ok THEN IntOf(BigOf(c.v.s)) ELSE NoInt
    [] t.k = "fact" -> LET c == IntVal(t.c, ctx) IN
                         IF c.ok /\ c.v.s >= 0 /\ IsSmall(c.v) /\ SmallInt(c.v) <= 40 THEN IntOf(BFact(SmallInt(c.v))) ELSE NoInt
    [] OTHER -> LET l == IntVal(t.l, ctx)  r == IntVal(t.r, ctx) IN
         IF ~l.ok \/ ~r.ok THEN NoInt ELSE
         CASE t.k = "add" -> IntOf(BAdd(l.v, r.v))
           [] t.k = "sub" -> IntOf(BSub(l.v, r.v))
           [] t.k = "mul" -> IntOf(BMul(l.v, r.v))
           [] t.k = "pow" -> IF r.v.s >= 0 /\ IsSmall(r.v) /\ SmallInt(r.v) <= 200 THEN IntOf(BPow(l.v, SmallInt(r.v)))
                             \* bases 0 and +-1 have an exact power for a non-negative exponent of ANY size: only its parity matters
                             \* (the limb base 10^4 is even, so the parity of the exponent is that of its lowest limb)
                             ELSE IF r.v.s > 0 /\ l.v.s = 0 THEN IntOf(BigOf(0))
                             ELSE IF r.v.s > 0 /\ l.v.m = <<1>> THEN IntOf(BigOf(IF l.v.s < 0 /\ r.v.m[1] % 2 = 1 THEN -1 ELSE 1))
                             ELSE NoInt
           [] t.k = "eq"  -> IF BCmp(l.v, r.v) = 0 THEN l ELSE NoInt
           [] OTHER -> NoInt          \* division: not integer-pure
\* an equation whose integer sides differ must raise
RECURSIVE IntUnequal(_,_)
IntUnequal(t, ctx) == IF t.k # "eq" THEN FALSE ELSE
                      LET l == IntVal(t.l, ctx)  r == IntVal(t.r, ctx) IN
                      IntUnequal(t.l, ctx) \/ (l.ok /\ r.ok /\ BCmp(l.v, r.v) # 0)

(* ---- exact small rational view with NaN ---- *)
NaNQ == <<1, 0>>
IsNaN(q) == q = NaNQ
SmallBig(b) == IF IsSmall(b) /\ AbsI(SmallInt(b)) <= Lim THEN <<SmallInt(b), 1>> ELSE UndefQ
Lift2(op(_,_), a, b) == IF a = UndefQ \/ b = UndefQ THEN UndefQ ELSE IF IsNaN(a) \/ IsNaN(b) THEN NaNQ ELSE op(a, b)
RECURSIVE RatVal(_,_)
RatVal(t, ctx) ==
  CASE t.k = "c" -> IF t.ty = "int" THEN SmallBig(t.b) ELSE NormQ(t.q[1], t.q[2])
    [] t.k = "v" -> LET bd == Binding(ctx, t.id) IN
                      IF bd.st # "bound" THEN UndefQ ELSE IF bd.ty = "int" THEN SmallBig(bd.b) ELSE NormQ(bd.q[1], bd.q[2])
    [] t.k = "neg" -> LET c == RatVal(t.c, ctx) IN IF c = UndefQ \/ IsNaN(c) THEN c ELSE <<-c[1], c[2]>>
    [] t.k = "abs" -> LET c == RatVal(t.c, ctx) IN IF c = UndefQ \/ IsNaN(c) THEN c ELSE <<AbsI(c[1]), c[2]>>
    [] t.k = "sgn" -> LET c == RatVal(t.c, ctx) IN IF c = UndefQ \/ IsNaN(c) THEN UndefQ ELSE <<IF c[1] > 0 THEN 1 ELSE IF c[1] < 0 THEN -1 ELSE 0, 1>>
    [] t.k = "fact" -> UndefQ
    [] t.k = "add" -> Lift2(AddQ, RatVal(t.l, ctx), RatVal(t.r, ctx))
    [] t.k = "sub" -> Lift2(SubQ, RatVal(t.l, ctx), RatVal(t.r, ctx))
    [] t.k = "mul" -> Lift2(MulQ, RatVal(t.l, ctx), RatVal(t.r, ctx))
    [] t.k = "div" -> LET a == RatVal(t.l, ctx)  b == RatVal(t.r, ctx) IN
                        IF a = UndefQ \/ b = UndefQ THEN UndefQ ELSE IF IsNaN(a) \/ IsNaN(b) THEN NaNQ
                        ELSE IF b[1] = 0 THEN NaNQ ELSE DivQ(a, b)          \* division by zero yields NaN
    [] t.k = "pow" -> LET a == RatVal(t.l, ctx)  b == RatVal(t.r, ctx) IN
                        IF a = UndefQ \/ b = UndefQ \/ IsNaN(a) \/ IsNaN(b) THEN UndefQ ELSE PowQ(a, b)
    [] OTHER -> UndefQ
(* ---- sign view: expressions that are non-negative by construction. IEEE arithmetic keeps them non-negative INCLUDING the sign
        bit of a zero and the sign of an infinity (fabs clears the sign bit; pow of a non-negative base, sums, products and guarded
        quotients of non-negatives are never negative and never -0.0); they may be NaN. Literals and bindings are non-negative when
        their exact value is >= 0 (the harness never binds a float negative zero). ---- *)
RECURSIVE NonNeg(_,_)
NonNeg(t, ctx) ==
  CASE t.k = "c" -> (IF t.ty = "int" THEN t.b.s >= 0 ELSE t.q[2] > 0 /\ t.q[1] >= 0)
    [] t.k = "v" -> (LET bd == Binding(ctx, t.id) IN bd.st = "bound" /\ (IF bd.ty = "int" THEN bd.b.s >= 0 ELSE bd.q[2] > 0 /\ bd.q[1] >= 0))
    [] t.k \in {"abs", "fact"} -> TRUE
    [] t.k \in {"add", "mul", "div"} -> NonNeg(t.l, ctx) /\ NonNeg(t.r, ctx)
    [] t.k = "pow" -> NonNeg(t.l, ctx)
    [] OTHER -> FALSE
(* ---- type view: trees over integer operands through + - * ! neg abs (no division, no power) evaluate to an INTEGER whatever their
        size - never to a float, an infinity or NaN ---- *)
RECURSIVE IntTyped(_,_)
IntTyped(t, ctx) ==
  CASE t.k = "c" -> t.ty = "int"
    [] t.k = "v" -> (LET bd == Binding(ctx, t.id) IN bd.st = "bound" /\ bd.ty = "int")
    [] t.k \in {"neg", "abs"} -> IntTyped(t.c, ctx)
    [] t.k = "fact" -> IntTyped(t.c, ctx) /\ NonNeg(t.c, ctx)
    [] t.k \in {"add", "sub", "mul"} -> IntTyped(t.l, ctx) /\ IntTyped(t.r, ctx)
    [] OTHER -> FALSE
(* ---- exact rational view over big integers: every int and every float is an exact rational (a float is fn / fd, a dyadic
        fraction shipped by the harness), closed under + - * / neg abs. Used for equations between non-integer sides: when the
        exact values of the two sides differ by more than 2^-40 relative - far beyond what rounding in a handful of operations
        can bridge - the computed sides differ too and the equation must raise. ---- *)
XQ(n, d) == [ok |-> TRUE, n |-> n, d |-> d]
NoXQ == [ok |-> FALSE]
BAbsX(x) == [s |-> IF x.s = 0 THEN 0 ELSE 1, m |-> x.m]
LeafXQ(x) == IF x.ty = "int" THEN XQ(x.b, BigOf(1)) ELSE IF "fn" \in DOMAIN x THEN XQ(x.fn, x.fd) ELSE NoXQ
RECURSIVE ExactQ(_,_)
ExactQ(t, ctx) ==
  CASE t.k = "c" -> LeafXQ(t)
    [] t.k = "v" -> (LET bd == Binding(ctx, t.id) IN IF bd.st = "bound" THEN LeafXQ(bd) ELSE NoXQ)
    [] t.k = "neg" -> (LET c == ExactQ(t.c, ctx) IN IF c.ok THEN XQ(BNeg(c.n), c.d) ELSE NoXQ)
    [] t.k = "abs" -> (LET c == ExactQ(t.c, ctx) IN IF c.ok THEN XQ(BAbsX(c.n), c.d) ELSE NoXQ)
    [] t.k \in {"add", "sub", "mul", "div"} -> (LET a == ExactQ(t.l, ctx)  b == ExactQ(t.r, ctx) IN
          IF ~a.ok \/ ~b.ok THEN NoXQ ELSE
          CASE t.k = "add" -> XQ(BAdd(BMul(a.n, b.d), BMul(b.n, a.d)), BMul(a.d, b.d))
            [] t.k = "sub" -> XQ(BSub(BMul(a.n, b.d), BMul(b.n, a.d)), BMul(a.d, b.d))
            [] t.k = "mul" -> XQ(BMul(a.n, b.n), BMul(a.d, b.d))
            [] OTHER -> IF b.n.s = 0 THEN NoXQ ELSE (IF b.n.s < 0 THEN XQ(BNeg(BMul(a.n, b.d)), BNeg(BMul(a.d, b.n))) ELSE XQ(BMul(a.n, b.d), BMul(a.d, b.n))))
    [] OTHER -> NoXQ
EqFarApart(t, ctx) ==
  t.k = "eq" /\ (LET a == ExactQ(t.l, ctx)  b == ExactQ(t.r, ctx) IN a.ok /\ b.ok /\
     (LET x == BMul(a.n, b.d)  y == BMul(b.n, a.d)
          big == IF BCmp(BAbsX(x), BAbsX(y)) >= 0 THEN BAbsX(x) ELSE BAbsX(y) IN
      BCmp(BMul(BAbsX(BSub(x, y)), BPow(BigOf(2), 40)), big) > 0))
(* ---- IEEE special-value view: which expressions over floats overflow to an infinity, turn into NaN, or stay finite. A value is
        [c: "fin" | "inf" | "nan" | "unk", s: sign, lo, hi] where a finite non-zero value has its magnitude in [2^lo, 2^hi] - an
        interval of binary exponents, exact at the leaves (the harness ships frexp's exponent of every float and the bit length of every
        integer: |v| in [2^(lg-1), 2^lg)). Rounding is monotone and the interval ends are powers of two, so the double the code computes
        stays inside the interval the real operation gives. Overflow is decided with a margin on both sides of 2^1024 (surely an
        infinity from 2^1025 on, surely finite up to 2^1023); anything in between, anything that may underflow (below 2^-1000) and
        anything behind a cancellation (a sum of operands of opposite signs) is "unk" and not judged. Infinities and NaN follow
        IEEE 754 with the one documented deviation: a divisor that compares equal to zero gives NaN (also inf / 0). Integer-typed
        subtrees are exact integers - they never become infinite - and are followed while they fit a double comfortably. ---- *)
XUnk == [c |-> "unk"]
XNan == [c |-> "nan"]
XInf(s) == [c |-> "inf", s |-> s]
XZero == [c |-> "fin", s |-> 0, lo |-> 0, hi |-> 0]
XFin(s, lo, hi) == IF s = 0 THEN XZero ELSE IF lo >= 1025 THEN XInf(s) ELSE IF hi <= 1023 /\ lo >= -1000 THEN [c |-> "fin", s |-> s, lo |-> lo, hi |-> hi] ELSE XUnk
XIntFin(s, lo, hi) == IF s = 0 THEN XZero ELSE IF hi <= 1000 THEN [c |-> "fin", s |-> s, lo |-> lo, hi |-> hi] ELSE XUnk
XLeaf(x) == IF "lg" \notin DOMAIN x THEN XUnk
            ELSE IF x.ty = "int" THEN XIntFin(x.b.s, x.lg - 1, x.lg) ELSE XFin(x.fn.s, x.lg - 1, x.lg)
XAdd(a, b, it) ==   \* it: the operation is integer typed
  IF a.c = "unk" \/ b.c = "unk" THEN XUnk ELSE IF a.c = "nan" \/ b.c = "nan" THEN XNan
  ELSE IF a.c = "inf" /\ b.c = "inf" THEN (IF a.s = b.s THEN XInf(a.s) ELSE XNan)
  ELSE IF a.c = "inf" THEN a ELSE IF b.c = "inf" THEN b
  ELSE IF a.s = 0 THEN b ELSE IF b.s = 0 THEN a
  ELSE IF a.s # b.s THEN XUnk                            \* cancellation: nothing is known about the magnitude
  ELSE IF it THEN XIntFin(a.s, MaxI(a.lo, b.lo), MaxI(a.hi, b.hi) + 1) ELSE XFin(a.s, MaxI(a.lo, b.lo), MaxI(a.hi, b.hi) + 1)
XNegate(a) == IF a.c \in {"unk", "nan"} THEN a ELSE IF a.c = "inf" THEN XInf(-a.s) ELSE [a EXCEPT !.s = -a.s]
XMul(a, b, it) ==
  IF a.c = "unk" \/ b.c = "unk" THEN XUnk ELSE IF a.c = "nan" \/ b.c = "nan" THEN XNan
  ELSE IF a.c = "inf" \/ b.c = "inf" THEN (IF a.s * b.s = 0 THEN XNan ELSE XInf(a.s * b.s))      \* inf * 0 is invalid
  ELSE IF it THEN XIntFin(a.s * b.s, a.lo + b.lo, a.hi + b.hi) ELSE XFin(a.s * b.s, a.lo + b.lo, a.hi + b.hi)
XDiv(a, b) ==
  IF a.c = "unk" \/ b.c = "unk" THEN XUnk ELSE IF a.c = "nan" \/ b.c = "nan" THEN XNan
  ELSE IF b.c = "fin" /\ b.s = 0 THEN XNan                                                         \* the documented deviation
  ELSE IF a.c = "inf" THEN (IF b.c = "inf" THEN XNan ELSE XInf(a.s * b.s))
  ELSE IF b.c = "inf" THEN XZero                                                                   \* finite / inf is a zero
  ELSE XFin(a.s * b.s, a.lo - b.hi, a.hi - b.lo)
RECURSIVE ExtVal(_,_)
ExtVal(t, ctx) ==
  CASE t.k = "c" -> XLeaf(t)
    [] t.k = "v" -> (LET bd == Binding(ctx, t.id) IN IF bd.st = "bound" THEN XLeaf(bd) ELSE XUnk)
    [] t.k = "neg" -> XNegate(ExtVal(t.c, ctx))
    [] t.k = "abs" -> (LET a == ExtVal(t.c, ctx) IN IF a.c \in {"unk", "nan"} THEN a ELSE IF a.c = "inf" THEN XInf(1)
                                                    ELSE [a EXCEPT !.s = IF a.s = 0 THEN 0 ELSE 1])
    [] t.k = "add" -> XAdd(ExtVal(t.l, ctx), ExtVal(t.r, ctx), IntTyped(t, ctx))
    [] t.k = "sub" -> XAdd(ExtVal(t.l, ctx), XNegate(ExtVal(t.r, ctx)), IntTyped(t, ctx))
    [] t.k = "mul" -> XMul(ExtVal(t.l, ctx), ExtVal(t.r, ctx), IntTyped(t, ctx))
    [] t.k = "div" -> XDiv(ExtVal(t.l, ctx), ExtVal(t.r, ctx))
    [] OTHER -> XUnk
(* ---- forward error bound: the magnitude of the computation (every operation on absolute values) ---- *)
RECURSIVE MagVal(_,_)
MagVal(t, ctx) ==
  CASE t.k = "c" -> (LET q == IF t.ty = "int" THEN SmallBig(t.b) ELSE NormQ(t.q[1], t.q[2]) IN IF q = UndefQ THEN UndefQ ELSE <<AbsI(q[1]), q[2]>>)
    [] t.k = "v" -> (LET q == RatVal(t, ctx) IN IF q = UndefQ \/ IsNaN(q) THEN UndefQ ELSE <<AbsI(q[1]), q[2]>>)
    [] t.k \in {"neg", "abs"} -> MagVal(t.c, ctx)
    [] t.k = "sgn" -> <<1, 1>>
    [] t.k = "fact" -> UndefQ
    [] t.k \in {"add", "sub"} -> AddQ(MagVal(t.l, ctx), MagVal(t.r, ctx))
    [] t.k = "mul" -> MulQ(MagVal(t.l, ctx), MagVal(t.r, ctx))
    [] t.k = "div" -> DivQ(MagVal(t.l, ctx), MagVal(t.r, ctx))
    [] t.k = "pow" -> PowQ(MagVal(t.l, ctx), RatVal(t.r, ctx))
    [] OTHER -> UndefQ
\* |f - q| <= 2^-44 * mag, with the observed float f = fn / fd given exactly (big integers)
WithinRounding(fn, fd, q, mag) ==
  LET qn == BigOf(q[1])  qd == BigOf(q[2])
      diff == BSub(BMul(fn, qd), BMul(qn, fd))
      adiff == [s |-> IF diff.s = 0 THEN 0 ELSE 1, m |-> diff.m]
      lhs == BMul(BMul(adiff, BigOf(mag[2])), BPow(BigOf(2), 44))
      rhs == BMul(BMul(BigOf(mag[1]), fd), qd)
  IN BCmp(lhs, rhs) <= 0
=============================================================================
