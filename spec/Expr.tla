-------------------------------- MODULE Expr --------------------------------
(***************************************************************************)
(* Terms (the semantic view of expression trees) and the reference          *)
(* semantics: exact evaluation in a prime field, exponents in Z,            *)
(* equivalence of expressions (C01, C03, C04, C09) and of equations by      *)
(* solution sets over small fields (C02).                                   *)
(*                                                                          *)
(* Term ::= [k:"c", n, d]            rational constant n/d  (d = 0: no value)*)
(*        | [k:"c", n, d, dg, sc, sg] big/long constant: digits dg, 10^-sc   *)
(*        | [k:"v", id]              variable, id = code point of the letter *)
(*        | [k \in Unary, c]         neg fact sgn abs                        *)
(*        | [k \in Binary, l, r]     add sub mul div pow eq                  *)
(***************************************************************************)
EXTENDS Numbers, FiniteSets
IsBin(k)  == k \in {"add","sub","mul","div","pow","eq"}
IsUn(k)   == k \in {"neg","fact","sgn","abs"}
IsLeafK(k) == k \in {"c","v"}

RECURSIVE Vars(_), TSize(_), Finite(_), KnownKinds(_)
Vars(t) == CASE t.k = "c" -> {} [] t.k = "v" -> {t.id} [] IsUn(t.k) -> Vars(t.c) [] OTHER -> Vars(t.l) \cup Vars(t.r)
TSize(t) == CASE IsLeafK(t.k) -> 1 [] IsUn(t.k) -> 1 + TSize(t.c) [] OTHER -> 1 + TSize(t.l) + TSize(t.r)
\* every constant has a value (no NaN / inf / unprojectable)
HasDigits(t) == "dg" \in DOMAIN t
Finite(t) == CASE t.k = "c" -> (t.d # 0 \/ HasDigits(t)) [] t.k = "v" -> TRUE [] IsUn(t.k) -> Finite(t.c) [] OTHER -> Finite(t.l) /\ Finite(t.r)
KnownKinds(t) == CASE IsLeafK(t.k) -> TRUE [] IsUn(t.k) -> KnownKinds(t.c) [] IsBin(t.k) -> KnownKinds(t.l) /\ KnownKinds(t.r) [] OTHER -> FALSE

(* assignments: a point is a pair <<A, B>>; the value of variable `id` is a small integer *)
ValAt(pt, id) == (((id * pt[1] + pt[2]) % 23) - 11)
Points == << <<1, 0>>, <<3, 5>>, <<5, 2>>, <<7, 11>>, <<2, 9>>, <<11, 4>>, <<13, 1>>, <<17, 20>>,
             <<4, 13>>, <<6, 6>>, <<9, 17>>, <<19, 3>> >>

(* exact small-rational evaluation (used for exponents and factorial arguments) *)
RECURSIVE EvalQ(_,_)
EvalQ(t, pt) ==
  CASE t.k = "c" -> IF HasDigits(t) THEN UndefQ ELSE NormQ(t.n, t.d)
    [] t.k = "v" -> <<ValAt(pt, t.id), 1>>
    [] t.k = "neg" -> LET c == EvalQ(t.c, pt) IN IF c = UndefQ THEN UndefQ ELSE <<-c[1], c[2]>>
    [] t.k = "fact" -> LET c == EvalQ(t.c, pt) IN
                         IF c = UndefQ \/ c[2] # 1 \/ c[1] < 0 \/ c[1] > 7 THEN UndefQ ELSE <<FactM(c[1], 1000003), 1>>
    [] IsUn(t.k) -> UndefQ
    [] t.k = "add" -> AddQ(EvalQ(t.l, pt), EvalQ(t.r, pt))
    [] t.k = "sub" -> SubQ(EvalQ(t.l, pt), EvalQ(t.r, pt))
    [] t.k = "mul" -> MulQ(EvalQ(t.l, pt), EvalQ(t.r, pt))
    [] t.k = "div" -> DivQ(EvalQ(t.l, pt), EvalQ(t.r, pt))
    [] t.k = "pow" -> PowQ(EvalQ(t.l, pt), EvalQ(t.r, pt))
    [] OTHER -> UndefQ

\* sgn / abs are uninterpreted functions of the field element (no rule or printer may reason about them)
Fn(k, v, m) == IF k = "sgn" THEN ((((v * v) % m) * v) + (7 * v) + 3) % m ELSE (((v * v) % m) + 5) % m

ConstM(t, m) ==
  IF HasDigits(t) THEN
       (LET num == FoldDigits(t.dg, 0, m)
            den == PowM(10 % m, t.sc, m)
            v == (num * InvM(den, m)) % m
        IN IF den = 0 THEN Undef ELSE (IF t.sg < 0 THEN (m - v) % m ELSE v))
  ELSE (IF t.d = 0 \/ t.d % m = 0 THEN Undef ELSE (ModM(t.n, m) * InvM(ModM(t.d, m), m)) % m)

(* an integer-valued exponent expression reduced modulo m1 = m - 1 (Fermat: b^(m-1) = 1 for b # 0, so b^E = b^(E mod (m-1)) for every
   integer E, negative ones included). This gives huge exponents a meaning - literals of any length, sums and products of them -
   where the small-rational view gives up. -1: not an integer expression. *)
RECURSIVE ExpM(_,_,_)
ExpM(t, pt, m1) ==
  CASE t.k = "c" -> (IF HasDigits(t) THEN (IF t.sc # 0 \/ ("xf" \in DOMAIN t /\ t.xf = 1) THEN -1 ELSE LET v == FoldDigits(t.dg, 0, m1) IN IF t.sg < 0 THEN (m1 - v) % m1 ELSE v)
                     ELSE IF t.d = 1 THEN ModM(t.n, m1) ELSE -1)
    [] t.k = "v" -> ModM(ValAt(pt, t.id), m1)
    [] t.k = "neg" -> (LET c == ExpM(t.c, pt, m1) IN IF c < 0 THEN -1 ELSE (m1 - c) % m1)
    [] t.k \in {"add", "sub", "mul"} -> (LET l == ExpM(t.l, pt, m1)  r == ExpM(t.r, pt, m1) IN
          IF l < 0 \/ r < 0 THEN -1 ELSE
          CASE t.k = "add" -> (l + r) % m1 [] t.k = "sub" -> (l - r + m1) % m1 [] OTHER -> ((l % m1) * (r % m1)) % m1)
    [] OTHER -> -1

(* evaluation in F_m: a field element, Undef, or Falsified *)
RECURSIVE EvalM(_,_,_)
EvalM(t, pt, m) ==
  CASE t.k = "c" -> ConstM(t, m)
    [] t.k = "v" -> ModM(ValAt(pt, t.id), m)
    [] t.k = "neg" -> LET c == EvalM(t.c, pt, m) IN IF c < 0 THEN c ELSE (m - c) % m
    [] t.k = "fact" -> LET c == EvalQ(t.c, pt) IN
                         IF c = UndefQ \/ c[2] # 1 \/ c[1] < 0 \/ c[1] > 400 THEN Undef ELSE FactM(c[1], m)
    [] t.k \in {"sgn","abs"} -> LET c == EvalM(t.c, pt, m) IN IF c < 0 THEN c ELSE Fn(t.k, c, m)
    [] t.k = "pow" -> LET b == EvalM(t.l, pt, m)  e == EvalQ(t.r, pt) IN
          IF b < 0 THEN b
          ELSE IF e = UndefQ THEN (LET x == ExpM(t.r, pt, m - 1) IN IF x < 0 \/ b = 0 THEN Undef ELSE PowM(b, x, m))
          ELSE IF e[2] # 1 THEN Undef
          ELSE IF e[1] >= 0 THEN PowM(b, e[1], m)
          ELSE IF b = 0 THEN Undef ELSE PowM(InvM(b, m), -e[1], m)
    [] OTHER -> LET l == EvalM(t.l, pt, m)  r == EvalM(t.r, pt, m) IN
          IF l = Undef \/ r = Undef THEN Undef ELSE IF l = Falsified \/ r = Falsified THEN Falsified ELSE
          CASE t.k = "add" -> (l + r) % m
            [] t.k = "sub" -> (l - r + m) % m
            [] t.k = "mul" -> (l * r) % m
            [] t.k = "div" -> IF r = 0 THEN Undef ELSE (l * InvM(r, m)) % m
            [] t.k = "eq"  -> IF l = r THEN l ELSE Falsified
            [] OTHER -> Undef
Eval(t, pt) == EvalM(t, pt, P)

PointOK(s, t, pt, m) == LET u == EvalM(s, pt, m)  v == EvalM(t, pt, m) IN u = Undef \/ v = Undef \/ u = v
\* same value wherever both are defined (sampled points; two moduli)
Equiv(s, t) == \A k \in 1..Len(Points) : PointOK(s, t, Points[k], P) /\ (k > 4 \/ PointOK(s, t, Points[k], P2))
\* number of sample points at which both are defined (vacuity indicator)
CommonDomain(s, t) == Cardinality({k \in 1..Len(Points) : EvalM(s, Points[k], P) # Undef /\ EvalM(t, Points[k], P) # Undef})

(* ---- equations: solution sets over small fields ---- *)
\* assignment by explicit values for (up to) the two smallest variable ids; others get point values
ValG(g, id) == IF id = g.v1 THEN g.x1 ELSE IF id = g.v2 THEN g.x2 ELSE ValAt(<<3, 5>>, id)
RECURSIVE EvalG(_,_,_)   \* like EvalM, with grid assignment g and exponents from the integer representatives
RECURSIVE EvalQg(_,_)
EvalQg(t, g) ==
  CASE t.k = "c" -> IF HasDigits(t) THEN UndefQ ELSE NormQ(t.n, t.d)
    [] t.k = "v" -> <<ValG(g, t.id), 1>>
    [] t.k = "neg" -> LET c == EvalQg(t.c, g) IN IF c = UndefQ THEN UndefQ ELSE <<-c[1], c[2]>>
    [] IsUn(t.k) -> UndefQ
    [] t.k = "add" -> AddQ(EvalQg(t.l, g), EvalQg(t.r, g))
    [] t.k = "sub" -> SubQ(EvalQg(t.l, g), EvalQg(t.r, g))
    [] t.k = "mul" -> MulQ(EvalQg(t.l, g), EvalQg(t.r, g))
    [] t.k = "div" -> DivQ(EvalQg(t.l, g), EvalQg(t.r, g))
    [] t.k = "pow" -> PowQ(EvalQg(t.l, g), EvalQg(t.r, g))
    [] OTHER -> UndefQ
EvalG(t, g, m) ==
  CASE t.k = "c" -> ConstM(t, m)
    [] t.k = "v" -> ModM(ValG(g, t.id), m)
    [] t.k = "neg" -> LET c == EvalG(t.c, g, m) IN IF c < 0 THEN c ELSE (m - c) % m
    [] t.k = "fact" -> LET c == EvalQg(t.c, g) IN
                         IF c = UndefQ \/ c[2] # 1 \/ c[1] < 0 \/ c[1] > 400 THEN Undef ELSE FactM(c[1], m)
    [] t.k \in {"sgn","abs"} -> LET c == EvalG(t.c, g, m) IN IF c < 0 THEN c ELSE Fn(t.k, c, m)
    [] t.k = "pow" -> LET b == EvalG(t.l, g, m)  e == EvalQg(t.r, g) IN
          IF b < 0 THEN b ELSE IF e = UndefQ \/ e[2] # 1 THEN Undef
          ELSE IF e[1] >= 0 THEN PowM(b, e[1], m)
          ELSE IF b = 0 THEN Undef ELSE PowM(InvM(b, m), -e[1], m)
    [] OTHER -> LET l == EvalG(t.l, g, m)  r == EvalG(t.r, g, m) IN
          IF l = Undef \/ r = Undef THEN Undef ELSE IF l = Falsified \/ r = Falsified THEN Falsified ELSE
          CASE t.k = "add" -> (l + r) % m
            [] t.k = "sub" -> (l - r + m) % m
            [] t.k = "mul" -> (l * r) % m
            [] t.k = "div" -> IF r = 0 THEN Undef ELSE (l * InvM(r, m)) % m
            [] t.k = "eq"  -> IF l = r THEN l ELSE Falsified
            [] OTHER -> Undef
MinOf(S) == CHOOSE x \in S : \A y \in S : x <= y
\* all assignments of the field F_q to the (up to two) variables: complete solution sets
Grid(vs, q) ==
  IF vs = {} THEN {[v1 |-> 0, x1 |-> 0, v2 |-> 0, x2 |-> 0]}
  ELSE LET a == MinOf(vs) IN
       IF vs \ {a} = {} THEN {[v1 |-> a, x1 |-> i, v2 |-> 0, x2 |-> 0] : i \in 0..(q-1)}
       ELSE LET b == MinOf(vs \ {a}) IN {[v1 |-> a, x1 |-> i, v2 |-> b, x2 |-> j] : i \in 0..(q-1), j \in 0..(q-1)}
SameSolutionsIn(s, t, q) ==
  \A g \in Grid(Vars(s) \cup Vars(t), q) :
     LET u == EvalG(s, g, q)  v == EvalG(t, g, q) IN u = Undef \/ v = Undef \/ ((u = Falsified) <=> (v = Falsified))
\* moduli: one variable -> F_31, F_37, F_101 ; two or more -> F_13, F_17 on the two smallest variables
SameSolutions(s, t) ==
  LET nv == Cardinality(Vars(s) \cup Vars(t)) IN
  IF nv <= 1 THEN SameSolutionsIn(s, t, 31) /\ SameSolutionsIn(s, t, 37) /\ SameSolutionsIn(s, t, 101)
  ELSE SameSolutionsIn(s, t, 13) /\ SameSolutionsIn(s, t, 17)
IsEq(t) == t.k = "eq"
\* "same meaning": value for expressions, solution set for equations
Same(s, t) == IF IsEq(s) \/ IsEq(t) THEN IsEq(s) /\ IsEq(t) /\ SameSolutions(s, t) ELSE Equiv(s, t)
=============================================================================
