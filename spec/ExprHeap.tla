------------------------------ MODULE ExprHeap ------------------------------
(* Expression trees at pointer level: a Heap whose nodes carry kind / constant / variable payload.
   Connects the structural view (Heap) with the semantic view (Expr). *)
EXTENDS Heap, Expr
\* arity by kind: binary operators have two children, one-operand nodes exactly one (on the side the
\* operand-side flag says), leaves none
ArityClauses(h, root) ==
  LET S == Reach(h, root) IN
  [ binary |-> \A i \in S : IsBin(h.kind[i]) => h.l[i] # 0 /\ h.r[i] # 0,
    unary  |-> \A i \in S : IsUn(h.kind[i]) => ((h.l[i] # 0) # (h.r[i] # 0)),
    unaryside |-> \A i \in S : (IsUn(h.kind[i]) /\ ((h.l[i] # 0) # (h.r[i] # 0))) => ((h.side[i] = "L") <=> (h.l[i] # 0)),
    leaf   |-> \A i \in S : IsLeafK(h.kind[i]) => h.l[i] = 0 /\ h.r[i] = 0,
    kinds  |-> \A i \in S : IsBin(h.kind[i]) \/ IsUn(h.kind[i]) \/ IsLeafK(h.kind[i]) ]
WFExpr(h, root) == WF(h, root) /\ \A c \in DOMAIN ArityClauses(h, root) : ArityClauses(h, root)[c]
WFExprFailing(h, root) ==
  IF ~WF(h, root) THEN WFFailing(h, root)
  ELSE {"arity_" \o c : c \in {c \in DOMAIN ArityClauses(h, root) : ~ArityClauses(h, root)[c]}}

\* constant payload of node i as a term leaf (big constants carry their digits in h.big)
ConstOf(h, i) == IF h.ex[i] \in {"big", "repr"}
                 THEN LET b == h.big[i] IN [k |-> "c", n |-> 0, d |-> 0, dg |-> b.dg, sc |-> b.sc, sg |-> b.sg, xf |-> IF h.ex[i] = "repr" THEN 1 ELSE 0]
                 ELSE [k |-> "c", n |-> h.num[i], d |-> h.den[i]]
RECURSIVE TermOf(_,_)   \* only called when WFExpr
TermOf(h, i) == LET k == h.kind[i] IN
  CASE k = "c" -> ConstOf(h, i)
    [] k = "v" -> [k |-> "v", id |-> h.vid[i]]
    [] IsUn(k) -> [k |-> k, c |-> TermOf(h, IF h.l[i] # 0 THEN h.l[i] ELSE h.r[i])]
    [] OTHER -> [k |-> k, l |-> TermOf(h, h.l[i]), r |-> TermOf(h, h.r[i])]
=============================================================================
