------------------------------- MODULE Grammar -------------------------------
(***************************************************************************)
(* Reference parser: the documented grammar of mathy_core (parser.md / the  *)
(* ExpressionParser docstring) and the prose of property C03, written from  *)
(* the documentation - NOT a transcription of the code:                     *)
(*   (Function)     = name "(" (AddExp) ")"                                 *)
(*   (Factor)       = { Variable | Function | "(" AddExp ")" }+ { "^" UnaryExp }?   (^ binds to the LAST factor) *)
(*   (FactorPrefix) = Constant { Factor }? | Constant "!" | Factor          *)
(*   (UnaryExp)     = { "-" }? FactorPrefix       (a minus directly before a literal makes a negative literal) *)
(*   (ExpExp)       = UnaryExp { "^" UnaryExp }?                            *)
(*   (MultExp)      = ExpExp { ("*"|"/") ExpExp }*     left-associative     *)
(*   (AddExp)       = MultExp { ("+"|"-") MultExp }*   left-associative     *)
(*   (EqualExp)     = AddExp { "=" AddExp }*                                *)
(* Input: the token list of Tokenizer.tla (padding dropped).                *)
(***************************************************************************)
EXTENDS Tokenizer, Expr

Fail == [ok |-> FALSE]
Ok(ast, pos) == [ok |-> TRUE, ast |-> ast, pos |-> pos]
K(toks, p) == IF p <= Len(toks) THEN toks[p].t ELSE TEOF
FirstFactor == {TVar, TOpen, TFunc}

(* ---- numerals ---- *)
DotCount(v) == Cardinality({i \in 1..Len(v) : v[i] = 46})
DigitSeq(v) == LET ds == SelectSeq(v, LAMBDA c : c # 46) IN [i \in 1..Len(ds) |-> ds[i] - 48]
WellFormedNumeral(v) == DotCount(v) <= 1 /\ Len(DigitSeq(v)) >= 1
\* leading zeros dropped (the last digit stays); by index, not by repeated Tail
StripZeros(ds) == IF Len(ds) <= 1 THEN ds ELSE
                  LET nz == {i \in 1..Len(ds) : ds[i] # 0}
                      first == IF nz = {} THEN Len(ds) ELSE CHOOSE i \in nz : \A j \in nz : i <= j
                  IN SubSeq(ds, first, Len(ds))
ScaleOf(v) == IF DotCount(v) = 0 THEN 0 ELSE Len(v) - (CHOOSE i \in 1..Len(v) : v[i] = 46)
RECURSIVE ToInt(_,_)
ToInt(ds, acc) == IF Len(ds) = 0 THEN acc ELSE ToInt(Tail(ds), acc * 10 + Head(ds))
NumTerm(v, neg) ==
  LET ds == StripZeros(DigitSeq(v))  sc == ScaleOf(v) IN
  IF Len(ds) <= 4 /\ sc <= 4
  THEN [k |-> "c", n |-> (IF neg THEN -1 ELSE 1) * ToInt(ds, 0), d |-> IPow(10, sc)]
  ELSE [k |-> "c", n |-> 0, d |-> 0, dg |-> ds, sc |-> sc, sg |-> IF neg THEN -1 ELSE 1]
AllNumeralsOK(toks) == \A i \in 1..Len(toks) : toks[i].t = TConst => WellFormedNumeral(toks[i].v)

Bin(k, l, r) == [k |-> k, l |-> l, r |-> r]
Un(k, c) == [k |-> k, c |-> c]
FnKind(name) == IF name = <<115, 103, 110>> THEN "sgn" ELSE IF name = <<97, 98, 115>> THEN "abs" ELSE "fn"

RECURSIVE PEqual(_,_), PEqLoop(_,_,_), PAdd(_,_), PAddLoop(_,_,_), PMult(_,_), PMultLoop(_,_,_),
          PExp(_,_), PUnary(_,_), PFactors(_,_), PFactorList(_,_,_), PFactorOne(_,_)

PEqual(toks, p) == LET a == PAdd(toks, p) IN IF ~a.ok THEN Fail ELSE PEqLoop(toks, a.ast, a.pos)
PEqLoop(toks, acc, p) ==
  IF K(toks, p) = TEqual THEN LET r == PAdd(toks, p + 1) IN IF ~r.ok THEN Fail ELSE PEqLoop(toks, Bin("eq", acc, r.ast), r.pos)
  ELSE Ok(acc, p)
PAdd(toks, p) == LET a == PMult(toks, p) IN IF ~a.ok THEN Fail ELSE PAddLoop(toks, a.ast, a.pos)
PAddLoop(toks, acc, p) ==
  IF K(toks, p) \in {TPlus, TMinus} THEN
     LET r == PMult(toks, p + 1) IN IF ~r.ok THEN Fail ELSE
     PAddLoop(toks, Bin(IF K(toks, p) = TPlus THEN "add" ELSE "sub", acc, r.ast), r.pos)
  ELSE Ok(acc, p)
PMult(toks, p) == LET a == PExp(toks, p) IN IF ~a.ok THEN Fail ELSE PMultLoop(toks, a.ast, a.pos)
PMultLoop(toks, acc, p) ==
  IF K(toks, p) \in {TMul, TDiv} THEN
     LET r == PExp(toks, p + 1) IN IF ~r.ok THEN Fail ELSE
     PMultLoop(toks, Bin(IF K(toks, p) = TMul THEN "mul" ELSE "div", acc, r.ast), r.pos)
  ELSE Ok(acc, p)
PExp(toks, p) ==
  LET a == PUnary(toks, p) IN IF ~a.ok THEN Fail ELSE
  IF K(toks, a.pos) = TExp THEN LET r == PUnary(toks, a.pos + 1) IN IF ~r.ok THEN Fail ELSE Ok(Bin("pow", a.ast, r.ast), r.pos)
  ELSE a
PUnary(toks, p) ==
  LET neg == K(toks, p) = TMinus
      q == IF neg THEN p + 1 ELSE p
  IN IF K(toks, q) = TConst THEN
        LET c == NumTerm(toks[q].v, neg) IN
        IF K(toks, q + 1) = TFact THEN Ok(Un("fact", c), q + 2)
        ELSE IF K(toks, q + 1) \in FirstFactor THEN
             LET f == PFactors(toks, q + 1) IN IF ~f.ok THEN Fail ELSE Ok(Bin("mul", c, f.ast), f.pos)
        ELSE Ok(c, q + 1)
     ELSE IF K(toks, q) \in FirstFactor THEN
        LET f == PFactors(toks, q) IN IF ~f.ok THEN Fail ELSE IF neg THEN Ok(Un("neg", f.ast), f.pos) ELSE f
     ELSE Fail
PFactorOne(toks, p) ==
  CASE K(toks, p) = TVar  -> Ok([k |-> "v", id |-> toks[p].v[1]], p + 1)
    [] K(toks, p) = TOpen -> LET a == PAdd(toks, p + 1) IN IF a.ok /\ K(toks, a.pos) = TClose THEN Ok(a.ast, a.pos + 1) ELSE Fail
    [] K(toks, p) = TFunc -> IF K(toks, p + 1) # TOpen THEN Fail ELSE
                             LET a == PAdd(toks, p + 2) IN
                             IF a.ok /\ K(toks, a.pos) = TClose THEN Ok(Un(FnKind(toks[p].v), a.ast), a.pos + 1) ELSE Fail
    [] OTHER -> Fail
\* the run of factors as a list
PFactorList(toks, acc, p) ==
  IF K(toks, p) \in FirstFactor
  THEN LET f == PFactorOne(toks, p) IN IF ~f.ok THEN Fail ELSE PFactorList(toks, Append(acc, f.ast), f.pos)
  ELSE [ok |-> TRUE, fs |-> acc, pos |-> p]
RECURSIVE MulLeft(_,_)
MulLeft(acc, fs) == IF Len(fs) = 0 THEN acc ELSE MulLeft(Bin("mul", acc, Head(fs)), Tail(fs))
PFactors(toks, p) ==
  LET fl == PFactorList(toks, <<>>, p) IN
  IF ~fl.ok \/ Len(fl.fs) = 0 THEN Fail ELSE
  IF K(toks, fl.pos) = TExp THEN
     LET r == PUnary(toks, fl.pos + 1) IN IF ~r.ok THEN Fail ELSE
     LET n == Len(fl.fs)
         fs2 == [fl.fs EXCEPT ![n] = Bin("pow", fl.fs[n], r.ast)]     \* the exponent binds to the last factor only
     IN Ok(MulLeft(Head(fs2), Tail(fs2)), r.pos)
  ELSE Ok(MulLeft(Head(fl.fs), Tail(fl.fs)), fl.pos)

\* toks: the tokenizer's list, ending with EOF
ParseToks(toks) ==
  IF Len(toks) <= 1 \/ ~AllNumeralsOK(toks) THEN Fail
  ELSE LET r == PEqual(toks, 1) IN IF r.ok /\ r.pos = Len(toks) THEN r ELSE Fail
SgnTable == {<<115, 103, 110>>}
\* the whole reading of a text
ParseText(buf) == LET tk == SpecTokens(buf, FALSE, SgnTable) IN IF ~tk.ok THEN Fail ELSE ParseToks(tk.toks)

(* ---- operand-order lemma ---- *)
RECURSIVE LeafSeq(_)
LeafSeq(t) == CASE t.k = "c" -> <<t>> [] t.k = "v" -> <<t>> [] IsUn(t.k) -> LeafSeq(t.c) [] OTHER -> LeafSeq(t.l) \o LeafSeq(t.r)
OperandToks(toks) == SelectSeq(toks, LAMBDA x : x.t \in {TConst, TVar})
SameOperand(leaf, tok) ==
  IF tok.t = TVar THEN leaf.k = "v" /\ leaf.id = tok.v[1]
  ELSE leaf.k = "c" /\ (LET a == ConstM(leaf, P)  b == ConstM(NumTerm(tok.v, FALSE), P) IN a # Undef /\ (a = b \/ a = (P - b) % P))
OperandsKept(ast, toks) ==
  LET ls == LeafSeq(ast)  ops == OperandToks(toks) IN
  Len(ls) = Len(ops) /\ \A i \in 1..Len(ls) : SameOperand(ls[i], ops[i])
=============================================================================
