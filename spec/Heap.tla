-------------------------------- MODULE Heap --------------------------------
(***************************************************************************)
(* Pointer-level view of mathy_core trees (BinaryTreeNode / MathExpression).*)
(* A heap h is a record of arrays over the universe of node objects 1..h.n  *)
(* (object identities as numbered by the harness, stable across snapshots):  *)
(*   h.l[i], h.r[i], h.p[i]  in 0..h.n   (0 = None)                          *)
(* Optional payload arrays (h.kind, h.num, h.den, h.vid, h.nid, h.side) are  *)
(* used by the expression-level modules.                                     *)
(* Contents: well-formedness, traversals with depth, look-ups, the rotation  *)
(* action and its contract (C15), cloning contracts (C13).                   *)
(***************************************************************************)
EXTENDS Integers, Sequences, FiniteSets

Nodes(h) == 1..h.n
Kids(h, i) == {h.l[i], h.r[i]} \ {0}

\* nodes reachable from i through left/right (visited-set recursion: terminates on cyclic heaps)
RECURSIVE ReachAcc(_,_,_)
ReachAcc(h, todo, seen) ==
  IF todo = {} THEN seen
  ELSE LET i == CHOOSE x \in todo : TRUE
           new == Kids(h, i) \ (seen \cup {i})
       IN ReachAcc(h, (todo \ {i}) \cup new, seen \cup {i})
Reach(h, root) == IF root = 0 THEN {} ELSE ReachAcc(h, {root}, {})

\* Well-formedness of the tree rooted at `root`, clause by clause (names are reported in verdicts)
WFClauses(h, root) ==
  LET S == Reach(h, root) IN
  [ rootparent |-> h.p[root] = 0,
    parents    |-> \A i \in S : (h.l[i] # 0 => h.p[h.l[i]] = i) /\ (h.r[i] # 0 => h.p[h.r[i]] = i),
    twosides   |-> \A i \in S : h.l[i] = 0 \/ h.l[i] # h.r[i],
    unique     |-> \A j \in S : Cardinality({<<i, sd>> \in S \X {"l","r"} :
                                    (IF sd = "l" THEN h.l[i] ELSE h.r[i]) = j}) = (IF j = root THEN 0 ELSE 1),
    noself     |-> \A i \in S : h.l[i] # i /\ h.r[i] # i ]
WF(h, root) == root # 0 /\ \A c \in DOMAIN WFClauses(h, root) : WFClauses(h, root)[c]
WFFailing(h, root) == IF root = 0 THEN {"noroot"} ELSE {"wf_" \o c : c \in {c \in DOMAIN WFClauses(h, root) : ~WFClauses(h, root)[c]}}

(* ---- traversals: sequences of <<node, depth>>; only meaningful (and only called) when WF ---- *)
RECURSIVE Pre(_,_,_), In(_,_,_), Post(_,_,_)
Pre(h, i, d)  == IF i = 0 THEN <<>> ELSE <<<<i, d>>>> \o Pre(h, h.l[i], d+1) \o Pre(h, h.r[i], d+1)
In(h, i, d)   == IF i = 0 THEN <<>> ELSE In(h, h.l[i], d+1) \o <<<<i, d>>>> \o In(h, h.r[i], d+1)
Post(h, i, d) == IF i = 0 THEN <<>> ELSE Post(h, h.l[i], d+1) \o Post(h, h.r[i], d+1) \o <<<<i, d>>>>
Order(h, root, o) == CASE o = "pre" -> Pre(h, root, 0) [] o = "in" -> In(h, root, 0) [] o = "post" -> Post(h, root, 0)
NodesOf(seq) == [k \in 1..Len(seq) |-> seq[k][1]]
InOrderNodes(h, root) == NodesOf(In(h, root, 0))
\* a traversal whose visitor returns STOP at its k-th callback makes exactly the first k callbacks
Stopped(seq, k) == IF k = 0 \/ k > Len(seq) THEN seq ELSE SubSeq(seq, 1, k)

(* ---- look-ups defined from the link structure ---- *)
RECURSIVE RootOf(_,_)
RootOf(h, i) == IF h.p[i] = 0 THEN i ELSE RootOf(h, h.p[i])
SideIn(h, par, c) == IF h.l[par] = c THEN "left" ELSE IF h.r[par] = c THEN "right" ELSE "none"
RECURSIVE RootSide(_,_)   \* side of the root under which non-root node i lives
RootSide(h, i) == IF h.p[h.p[i]] = 0 THEN SideIn(h, h.p[i], i) ELSE RootSide(h, h.p[i])
\* the other operand of the node that holds i; a node that merely points at a former parent (it was replaced there) is nobody's sibling
Sibling(h, i) == IF h.p[i] = 0 THEN 0 ELSE IF h.l[h.p[i]] = i THEN h.r[h.p[i]] ELSE IF h.r[h.p[i]] = i THEN h.l[h.p[i]] ELSE 0
Children(h, i) == (IF h.l[i] # 0 THEN <<h.l[i]>> ELSE <<>>) \o (IF h.r[i] # 0 THEN <<h.r[i]>> ELSE <<>>)
IsLeaf(h, i) == h.l[i] = 0 /\ h.r[i] = 0
RECURSIVE PathTo(_,_)
PathTo(h, i) == IF h.p[i] = 0 THEN <<>> ELSE Append(PathTo(h, h.p[i]), IF h.l[h.p[i]] = i THEN "L" ELSE "R")

(* ---- rotation: reference action and contract (C15) ---- *)
Rotate(h, i) ==
  LET par == h.p[i] IN
  IF par = 0 THEN h ELSE
  LET g == h.p[par]
      left == h.l[par] = i
      moved == IF left THEN h.r[i] ELSE h.l[i]          \* the inner grandchild changes parent
      l1 == [h.l EXCEPT ![par] = IF left THEN moved ELSE @, ![i] = IF left THEN @ ELSE par]
      r1 == [h.r EXCEPT ![par] = IF left THEN @ ELSE moved, ![i] = IF left THEN par ELSE @]
      l2 == IF g # 0 /\ h.l[g] = par THEN [l1 EXCEPT ![g] = i] ELSE l1
      r2 == IF g # 0 /\ h.l[g] # par THEN [r1 EXCEPT ![g] = i] ELSE r1
      p1 == [h.p EXCEPT ![par] = i, ![i] = g]
      p2 == IF moved # 0 THEN [p1 EXCEPT ![moved] = par] ELSE p1
  IN [h EXCEPT !.l = l2, !.r = r2, !.p = p2]

\* what C15 demands of an observed rotation of node i: before h (root r0), after h2
RotateClauses(h, r0, i, h2) ==
  LET par == h.p[i]
      g == IF par = 0 THEN 0 ELSE h.p[par]
      r2 == IF par = r0 /\ par # 0 THEN i ELSE r0        \* rotating a child of the root makes it the root
  IN [ wf       |-> WF(h2, r2),
       inorder  |-> WF(h2, r2) => InOrderNodes(h2, r2) = InOrderNodes(h, r0),
       above    |-> par # 0 => (h2.p[par] = i /\ h2.p[i] = g /\ SideIn(h2, i, par) # "none"),
       grand    |-> (par # 0 /\ g # 0) => SideIn(h2, g, i) = SideIn(h, g, par),
       rootnoop |-> par = 0 => (h2.l = h.l /\ h2.r = h.r /\ h2.p = h.p),
       nodeset  |-> Reach(h2, r2) = Reach(h, r0) ]
RotateFailing(h, r0, i, h2) == {c \in DOMAIN RotateClauses(h, r0, i, h2) : ~RotateClauses(h, r0, i, h2)[c]}

(* ---- shapes as nested records, for exhaustive enumeration by TLC ---- *)
Nil == [nil |-> TRUE]
Leaf == [nil |-> FALSE, l |-> Nil, r |-> Nil]
RECURSIVE Size(_)
Size(t) == IF t.nil THEN 0 ELSE 1 + Size(t.l) + Size(t.r)
\* all trees obtained by hanging one new leaf on a free slot of t
RECURSIVE Grow1(_)
Grow1(t) == IF t.nil THEN {Leaf}
            ELSE {[t EXCEPT !.l = u] : u \in Grow1(t.l)} \cup {[t EXCEPT !.r = u] : u \in Grow1(t.r)}
\* heap of a nested shape, nodes numbered in pre-order from `first`; returns [h arrays as sequences, next]
RECURSIVE Flat(_,_,_)
Flat(t, par, first) ==  \* sequence of [l, r, p] rows for nodes first..first+Size(t)-1
  IF t.nil THEN <<>> ELSE
  LET ls == Size(t.l)
      li == IF t.l.nil THEN 0 ELSE first + 1
      ri == IF t.r.nil THEN 0 ELSE first + 1 + ls
  IN <<[l |-> li, r |-> ri, p |-> par]>> \o Flat(t.l, first, first + 1) \o Flat(t.r, first, first + 1 + ls)
HeapOf(t) == LET rows == Flat(t, 0, 1) IN
  [n |-> Len(rows), l |-> [i \in 1..Len(rows) |-> rows[i].l], r |-> [i \in 1..Len(rows) |-> rows[i].r],
   p |-> [i \in 1..Len(rows) |-> rows[i].p]]
=============================================================================
