------------------------------- MODULE Layout -------------------------------
(***************************************************************************)
(* Tidy-tree invariants of a layout (C18), stated over a heap and integer    *)
(* coordinates (the harness scales x and y by 1024: unit multipliers used are   *)
(* multiples of 1/2 and raw offsets are multiples of 1/2).                   *)
(*   X[i], Y[i] : scaled coordinates;  ux, uy : scaled unit multipliers      *)
(***************************************************************************)
EXTENDS Heap
RECURSIVE Depth(_,_)
Depth(h, i) == IF h.p[i] = 0 THEN 0 ELSE 1 + Depth(h, h.p[i])
MinOfSet(S) == CHOOSE x \in S : \A y \in S : x <= y
MaxOfSet(S) == CHOOSE x \in S : \A y \in S : x >= y
\* nodes of one level in left-to-right (in-order) sequence
LevelSeq(h, root, d) == SelectSeq(InOrderNodes(h, root), LAMBDA i : Depth(h, i) = d)
LayoutClauses(h, root, X, Y, ux, uy, m) ==
  LET S == Reach(h, root)
      depths == {Depth(h, i) : i \in S} IN
  [ y_is_depth_times_unit |-> \A i \in S : Y[i] = Depth(h, i) * uy,
    left_child_left       |-> \A i \in S : h.l[i] # 0 => X[h.l[i]] < X[i],
    right_child_right     |-> \A i \in S : h.r[i] # 0 => X[h.r[i]] > X[i],
    parent_centred        |-> \A i \in S : (h.l[i] # 0 /\ h.r[i] # 0) => 2 * X[i] = X[h.l[i]] + X[h.r[i]],
    level_order_and_separation |-> \A d \in depths : LET s == LevelSeq(h, root, d) IN
                                      \A k \in 1..(Len(s) - 1) : X[s[k + 1]] - X[s[k]] >= ux,
    bounds                |-> /\ m.minX = MinOfSet({X[i] : i \in S}) /\ m.maxX = MaxOfSet({X[i] : i \in S})
                              /\ m.minY = MinOfSet({Y[i] : i \in S}) /\ m.maxY = MaxOfSet({Y[i] : i \in S})
                              /\ m.width = m.maxX - m.minX /\ m.height = m.maxY - m.minY ]
LayoutFailing(h, root, X, Y, ux, uy, m) == {c \in DOMAIN LayoutClauses(h, root, X, Y, ux, uy, m) : ~LayoutClauses(h, root, X, Y, ux, uy, m)[c]}
(* ---- a reference tidy layout (functional Reingold-Tilford): a witness that the invariants are satisfiable for every
        shape, and the specification a repair of TreeLayout.measure would have to meet. Not used as an oracle. ---- *)
\* contours of the subtree at i, relative to i: sequences (one entry per level below and including i) of the
\* leftmost / rightmost x offset on that level
MaxI2(a, b) == IF a > b THEN a ELSE b
MinI2(a, b) == IF a < b THEN a ELSE b
RECURSIVE RefOffset(_,_,_), LeftContour(_,_,_), RightContour(_,_,_), SepNeeded(_,_,_,_)
\* distance from i to each child (children sit at -RefOffset / +RefOffset); unit = scaled x unit
SepNeeded(rc, lc, k, unit) ==       \* rc: right contour of the left subtree, lc: left contour of the right subtree
  IF k > Len(rc) \/ k > Len(lc) THEN 0 ELSE MaxI2(rc[k] - lc[k] + unit, SepNeeded(rc, lc, k + 1, unit))
RefOffset(h, i, unit) ==
  IF h.l[i] # 0 /\ h.r[i] # 0
  THEN LET need == SepNeeded(RightContour(h, h.l[i], unit), LeftContour(h, h.r[i], unit), 1, unit) IN
       (MaxI2(need, unit) + 1) \div 2
  ELSE unit
Shift(s, d) == [k \in 1..Len(s) |-> s[k] + d]
\* level-wise: take a where it exists, else b
Merge(a, b, pick(_,_)) == [k \in 1..MaxI2(Len(a), Len(b)) |-> IF k > Len(a) THEN b[k] ELSE IF k > Len(b) THEN a[k] ELSE pick(a[k], b[k])]
LeftContour(h, i, unit) ==
  LET off == RefOffset(h, i, unit)
      a == IF h.l[i] # 0 THEN Shift(LeftContour(h, h.l[i], unit), -off) ELSE <<>>
      b == IF h.r[i] # 0 THEN Shift(LeftContour(h, h.r[i], unit), off) ELSE <<>>
  IN <<0>> \o Merge(a, b, MinI2)
RightContour(h, i, unit) ==
  LET off == RefOffset(h, i, unit)
      a == IF h.l[i] # 0 THEN Shift(RightContour(h, h.l[i], unit), -off) ELSE <<>>
      b == IF h.r[i] # 0 THEN Shift(RightContour(h, h.r[i], unit), off) ELSE <<>>
  IN <<0>> \o Merge(a, b, MaxI2)
RECURSIVE RefX(_,_,_)
RefX(h, i, unit) == IF h.p[i] = 0 THEN 0
                    ELSE LET par == h.p[i] IN RefX(h, par, unit) + (IF h.l[par] = i THEN -1 ELSE 1) * RefOffset(h, par, unit)
RefLayoutX(h, unit) == [i \in 1..h.n |-> RefX(h, i, unit)]
RefLayoutY(h, uy) == [i \in 1..h.n |-> Depth(h, i) * uy]
RefMeasure(h, root, X, Y) == LET S == Reach(h, root) IN
  [minX |-> MinOfSet({X[i] : i \in S}), maxX |-> MaxOfSet({X[i] : i \in S}), minY |-> MinOfSet({Y[i] : i \in S}), maxY |-> MaxOfSet({Y[i] : i \in S}),
   width |-> MaxOfSet({X[i] : i \in S}) - MinOfSet({X[i] : i \in S}), height |-> MaxOfSet({Y[i] : i \in S}) - MinOfSet({Y[i] : i \in S})]

\* mirror image of a heap: children swapped
MirrorHeap(h) == [h EXCEPT !.l = h.r, !.r = h.l]
=============================================================================
