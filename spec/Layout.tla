------------------------------- MODULE Layout -------------------------------
(***************************************************************************)
(* Tidy-tree invariants of a layout (C18), stated over a heap and integer    *)
(* coordinates (the harness scales x and y by 1024: unit multipliers used are   *)
(* multiples of 1/2 and raw offsets are multiples of 1/2).                   *)
(*   X[i], Y[i] : scaled coordinates;  ux, uy : scaled unit multipliers      *)
(***************************************************************************)
EXTENDS Heap
RECURSIVE Depth(_,_)
Depth(h, i) == IF h.p[i] = 0 THEN 0 ELSE 1 + Depth(h, h.p[i])
MinOfSet(S) == CHOOSE x \in S : \A y \in S : x <= y
MaxOfSet(S) == CHOOSE x \in S : \A y \in S : x >= y
\* nodes of one level in left-to-right (in-order) sequence
LevelSeq(h, root, d) == SelectSeq(InOrderNodes(h, root), LAMBDA i : Depth(h, i) = d)
LayoutClauses(h, root, X, Y, ux, uy, m) ==
  LET S == Reach(h, root)
      depths == {Depth(h, i) : i \in S} IN
  [ y_is_depth_times_unit |-> \A i \in S : Y[i] = Depth(h, i) * uy,
    left_child_left       |-> \A i \in S : h.l[i] # 0 => X[h.l[i]] < X[i],
    right_child_right     |-> \A i \in S : h.r[i] # 0 => X[h.r[i]] > X[i],
    parent_centred        |-> \A i \in S : (h.l[i] # 0 /\ h.r[i] # 0) => 2 * X[i] = X[h.l[i]] + X[h.r[i]],
    level_order_and_separation |-> \A d \in depths : LET s == LevelSeq(h, root, d) IN
                                      \A k \in 1..(Len(s) - 1) : X[s[k + 1]] - X[s[k]] >= ux,
    bounds                |-> /\ m.minX = MinOfSet({X[i] : i \in S}) /\ m.maxX = MaxOfSet({X[i] : i \in S})
                              /\ m.minY = MinOfSet({Y[i] : i \in S}) /\ m.maxY = MaxOfSet({Y[i] : i \in S})
                              /\ m.width = m.maxX - m.minX /\ m.height = m.maxY - m.minY ]
LayoutFailing(h, root, X, Y, ux, uy, m) == {c \in DOMAIN LayoutClauses(h, root, X, Y, ux, uy, m) : ~LayoutClauses(h, root, X, Y, ux, uy, m)[c]}
\* mirror image of a heap: children swapped
MirrorHeap(h) == [h EXCEPT !.l = h.r, !.r = h.l]
=============================================================================
