----------------------------- MODULE MC_Grammar -----------------------------
(* Exhaustive exploration of the reference grammar over all token strings up to MaxLen over a
   14-symbol alphabet; checks the operand-order lemma and that acceptance depends on token kinds only;
   emits every sentence (accepted string) for replay into the real parser. *)
EXTENDS Grammar, TLC
CONSTANTS MaxLen, EmitSentences
SymSeq == << Tok(TConst, <<50>>), Tok(TConst, <<51>>), Tok(TVar, <<120>>), Tok(TVar, <<121>>),
             Tok(TPlus, <<43>>), Tok(TMinus, <<45>>), Tok(TMul, <<42>>), Tok(TDiv, <<47>>), Tok(TExp, <<94>>),
             Tok(TFact, <<33>>), Tok(TOpen, <<40>>), Tok(TClose, <<41>>), Tok(TEqual, <<61>>), Tok(TFunc, <<115, 103, 110>>) >>
VARIABLES syms, res
vars == <<syms, res>>
ToksOf(s) == [i \in 1..Len(s) |-> SymSeq[s[i]]] \o <<EOFTok>>
Init == syms = <<>> /\ res = Fail
Next == Len(syms) < MaxLen /\ \E k \in 1..Len(SymSeq) : syms' = Append(syms, k) /\ res' = ParseToks(ToksOf(syms'))
Spec == Init /\ [][Next]_vars
OperandLemma == res.ok => OperandsKept(res.ast, ToksOf(syms))
\* acceptance depends on token kinds only: relabel 3 -> 2 and y -> x
Relabel(s) == [i \in 1..Len(s) |-> IF s[i] = 2 THEN 1 ELSE IF s[i] = 4 THEN 3 ELSE s[i]]
KindsOnly == ParseToks(ToksOf(Relabel(syms))).ok = res.ok
\* the grammar reads its own sentences with every operand kept and all variables present
VarsLemma == res.ok => Vars(res.ast) = {SymSeq[syms[i]].v[1] : i \in {j \in 1..Len(syms) : syms[j] \in {3, 4}}}
Emit == (EmitSentences /\ res.ok) => PrintT(<<"S", syms>>)
=============================================================================
