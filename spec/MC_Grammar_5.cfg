SPECIFICATION Spec
CONSTANTS
  MaxLen = 5
  EmitSentences = TRUE
INVARIANT OperandLemma
INVARIANT KindsOnly
INVARIANT VarsLemma
CONSTRAINT Emit
CHECK_DEADLOCK FALSE
