SPECIFICATION Spec
CONSTANTS
  MaxLen = 6
  EmitSentences = TRUE
INVARIANT OperandLemma
INVARIANT KindsOnly
INVARIANT VarsLemma
CONSTRAINT Emit
CHECK_DEADLOCK FALSE
