------------------------------- MODULE MC_Heap -------------------------------
(* Exhaustive exploration of all binary tree shapes (each node has 0, left-only, right-only
   or 2 children) up to MaxNodes, grown one leaf at a time, plus one rotation of any node.
   Checks on the model: the three orders are permutations of the node set with true depths;
   stopping yields prefixes; the reference rotation satisfies the C15 contract. *)
EXTENDS Heap, TLC
CONSTANT MaxNodes
VARIABLES t, phase, rot      \* t: nested shape; rot: 0 or the node rotated (heap numbering)
vars == <<t, phase, rot>>
Init == t = Leaf /\ phase = "grow" /\ rot = 0
Grow == phase = "grow" /\ Size(t) < MaxNodes /\ \E u \in Grow1(t) : t' = u /\ UNCHANGED <<phase, rot>>
Rot  == phase = "grow" /\ phase' = "rotated" /\ rot' \in 1..Size(t) /\ UNCHANGED t
Next == Grow \/ Rot
Spec == Init /\ [][Next]_vars
H == HeapOf(t)
RECURSIVE DepthOf(_,_)
DepthOf(h, i) == IF h.p[i] = 0 THEN 0 ELSE 1 + DepthOf(h, h.p[i])
ShapeWF == WF(H, 1)
OrdersArePermutations ==
  \A o \in {"pre","in","post"} : LET s == Order(H, 1, o) IN
     /\ Len(s) = H.n /\ {s[k][1] : k \in 1..Len(s)} = 1..H.n
     /\ \A k \in 1..Len(s) : s[k][2] = DepthOf(H, s[k][1])
PreStartsAtRoot == Order(H, 1, "pre")[1] = <<1, 0>> /\ Order(H, 1, "post")[H.n] = <<1, 0>>
\* in-order places everything in the left subtree before, and in the right subtree after, each node
InOrderDefining == LET io == InOrderNodes(H, 1)
                       pos == [i \in 1..H.n |-> CHOOSE k \in 1..H.n : io[k] = i] IN
   \A i \in 1..H.n : (\A j \in Reach(H, H.l[i]) : pos[j] < pos[i]) /\ (\A j \in Reach(H, H.r[i]) : pos[j] > pos[i])
RotationContract == rot # 0 => RotateFailing(H, 1, rot, Rotate(H, rot)) = {}
RotateInverse == (rot # 0 /\ H.p[rot] # 0) =>
    LET h2 == Rotate(H, rot) IN [l |-> Rotate(h2, H.p[rot]).l, r |-> Rotate(h2, H.p[rot]).r, p |-> Rotate(h2, H.p[rot]).p]
                                 = [l |-> H.l, r |-> H.r, p |-> H.p]
=============================================================================
