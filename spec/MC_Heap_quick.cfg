SPECIFICATION Spec
CONSTANT MaxNodes = 7
INVARIANT ShapeWF
INVARIANT OrdersArePermutations
INVARIANT PreStartsAtRoot
INVARIANT InOrderDefining
INVARIANT RotationContract
INVARIANT RotateInverse
CHECK_DEADLOCK FALSE
