SPECIFICATION Spec
CONSTANT MaxNodes = 9
INVARIANT ShapeWF
INVARIANT OrdersArePermutations
INVARIANT PreStartsAtRoot
INVARIANT InOrderDefining
INVARIANT RotationContract
INVARIANT RotateInverse
CHECK_DEADLOCK FALSE
