------------------------------ MODULE MC_Layout ------------------------------
(* Satisfiability / non-vacuity of the tidy-tree invariants: for every shape up to MaxNodes the reference layout of
   Layout.tla satisfies every clause, and the reference layout of the mirrored shape is the mirror image. *)
EXTENDS Layout, TLC
CONSTANT MaxNodes
VARIABLES t
Init == t = Leaf
Next == Size(t) < MaxNodes /\ \E u \in Grow1(t) : t' = u
H == HeapOf(t)
Unit == 1024
RefSatisfiesInvariants ==
  LET X == RefLayoutX(H, Unit)  Y == RefLayoutY(H, Unit) IN
  LayoutFailing(H, 1, X, Y, Unit, Unit, RefMeasure(H, 1, X, Y)) = {}
\* mirrored shape: node k of the mirror heap corresponds to node k (children swapped in place)
RefMirrors == LET X == RefLayoutX(H, Unit)  XM == RefLayoutX(MirrorHeap(H), Unit) IN \A i \in 1..H.n : XM[i] = -X[i]
=============================================================================
