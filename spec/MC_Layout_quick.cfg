INIT Init
NEXT Next
CONSTANT MaxNodes = 7
INVARIANT RefSatisfiesInvariants
INVARIANT RefMirrors
CHECK_DEADLOCK FALSE
