INIT Init
NEXT Next
CONSTANT MaxNodes = 9
INVARIANT RefSatisfiesInvariants
INVARIANT RefMirrors
CHECK_DEADLOCK FALSE
