--------------------------- MODULE MC_ParserObject ---------------------------
EXTENDS ParserObject
TextsC == {"ok1", "ok2", "bad", "unsup"}
ModesC == {"default", "padded"}
\* "padded" keeps padding tokens: one more token in ok1; "unsup" is unsupported in every configuration
TokLenC == [m \in ModesC |-> [t \in TextsC |-> CASE t = "ok1" -> (IF m = "padded" THEN 3 ELSE 2) [] t = "ok2" -> 1 [] t = "bad" -> 2 [] OTHER -> 0]]
ParseOKC == [m \in ModesC |-> [t \in TextsC |-> t \in {"ok1", "ok2"}]]
=============================================================================
