--------------------------- MODULE MC_ParserObject ---------------------------
EXTENDS ParserObject
TextsC == {"ok1", "ok2", "bad", "unsup"}
TokLenC == [t \in TextsC |-> CASE t = "ok1" -> 2 [] t = "ok2" -> 1 [] t = "bad" -> 2 [] OTHER -> 0]
ParseOKC == [t \in TextsC |-> t \in {"ok1", "ok2"}]
=============================================================================
