SPECIFICATION Spec
CONSTANTS
  Texts <- TextsC
  TokLen <- TokLenC
  ParseOK <- ParseOKC
  CopyOnReturn = TRUE
  CopyTokens = TRUE
  ResetCursor = TRUE
  MaxLists = 9
  Modes <- ModesC
  ClearDropsTokens = TRUE
  MaxSteps = 5
INVARIANT HistoryFree
INVARIANT CacheIntact
CHECK_DEADLOCK FALSE
