SPECIFICATION Spec
CONSTANTS
  Texts <- TextsC
  TokLen <- TokLenC
  ParseOK <- ParseOKC
  CopyOnReturn = TRUE
  CopyTokens = TRUE
  ResetCursor = TRUE
  MaxLists = 11
  Modes <- ModesC
  ClearDropsTokens = TRUE
  MaxSteps = 6
INVARIANT HistoryFree
INVARIANT CacheIntact
CHECK_DEADLOCK FALSE
