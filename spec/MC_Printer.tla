------------------------------ MODULE MC_Printer ------------------------------
(* Model-level round trip of the printer model against the reference grammar, over every term of depth <= 2 that the
   parser can produce from the leaf set (factorial only of a natural literal, '=' only at the root), each also placed
   in one more layer of context (depth 3 along one path). Failing terms are printed, not stopped at. *)
EXTENDS Printer, TLC
C(n) == [k |-> "c", n |-> n, d |-> 1]
CONSTANTS LeafChoice, DoWrap
Leaves == IF LeafChoice = "small" THEN {C(2), C(-3), [k |-> "v", id |-> 120]}
          ELSE {C(2), C(-3), [k |-> "c", n |-> 1, d |-> 2], [k |-> "v", id |-> 120], [k |-> "v", id |-> 121]}
BinK == {"add", "sub", "mul", "div", "pow"}
Layer(S) == S \cup {[k |-> u, c |-> x] : u \in {"neg", "sgn"}, x \in S} \cup {[k |-> b, l |-> x, r |-> y] : b \in BinK, x \in S, y \in S}
D1 == Layer(Leaves) \cup {[k |-> "fact", c |-> C(2)], [k |-> "fact", c |-> C(0)]}
D2 == Layer(D1)
Wrap(u) == {u} \cup {[k |-> w, c |-> u] : w \in {"neg", "sgn"}}
           \cup {[k |-> b, l |-> u, r |-> x] : b \in BinK, x \in {C(2), [k |-> "v", id |-> 122]}}
           \cup {[k |-> b, l |-> x, r |-> u] : b \in BinK, x \in {C(2), [k |-> "v", id |-> 122]}}
           \cup {[k |-> "eq", l |-> u, r |-> C(4)]}
VARIABLES u, t
Init == u \in D2 /\ t = u
Next == DoWrap /\ t = u /\ t' \in Wrap(u) \ {u} /\ UNCHANGED u
Report == ~RoundTrip(t) => PrintT(<<"RT", PrintText(t)>>)
PrinterRoundTrips == RoundTrip(t)
Count == TLCGet("generated") >= 0 /\ PrintT(<<"TERMS", TLCGet("distinct")>>)
=============================================================================
