INIT Init
NEXT Next
CONSTANTS
  LeafChoice = "small"
  DoWrap = FALSE
INVARIANT PrinterRoundTrips
POSTCONDITION Count
CHECK_DEADLOCK FALSE
