INIT Init
NEXT Next
CONSTANTS
  LeafChoice = "small"
  DoWrap = TRUE
INVARIANT PrinterRoundTrips
POSTCONDITION Count
CHECK_DEADLOCK FALSE
