----------------------------- MODULE MC_RulesImpl -----------------------------
(* The implementation-shaped rules satisfy the relational contract: for every term of the domain, every node and every
   rule instance, whenever the model says the rule applies the tree it builds means the same (value / solution set) and
   has the same variables.  Also explores rewriting sessions driven by the model alone (Steps > 0). *)
EXTENDS RulesImpl, TLC
CONSTANTS LeafChoice, Steps, Thin, EmitScripts
C(n) == [k |-> "c", n |-> n, d |-> 1]
XV == [k |-> "v", id |-> 120]
YV == [k |-> "v", id |-> 121]
Leaves == IF LeafChoice = "small" THEN {C(2), C(-3), XV} ELSE {C(2), C(-3), C(0), [k |-> "c", n |-> 1, d |-> 2], XV, YV}
BinK == {"add", "sub", "mul", "div", "pow"}
Layer(S) == S \cup {[k |-> "neg", c |-> x] : x \in S} \cup {[k |-> b, l |-> x, r |-> y] : b \in BinK, x \in S, y \in S}
D1 == Layer(Leaves)
D2 == IF Thin THEN D1 \cup {[k |-> "neg", c |-> x] : x \in D1}
                       \cup {[k |-> b, l |-> x, r |-> y] : b \in BinK, x \in D1, y \in Leaves} \cup {[k |-> b, l |-> y, r |-> x] : b \in BinK, x \in D1, y \in Leaves}
                       \cup {[k |-> "eq", l |-> x, r |-> y] : x \in D1, y \in Leaves} \cup {[k |-> "eq", l |-> y, r |-> x] : x \in D1, y \in Leaves}
      ELSE Layer(D1) \cup {[k |-> "eq", l |-> x, r |-> y] : x \in D1, y \in D1}
VARIABLES start, cur, n, script
Starts == IF EmitScripts THEN D1 \cup {[k |-> b, l |-> x, r |-> y] : b \in {"add", "mul", "sub"}, x \in D1, y \in Leaves}
                                \cup {[k |-> "eq", l |-> x, r |-> y] : x \in D1, y \in Leaves} ELSE D2
Init == start \in Starts /\ cur = start /\ n = 0 /\ script = <<>>
Applicable(t) == {<<ri, p>> \in RuleInstances \X AllPaths(t) : ImplCan(ri[1], ri[2], t, p) = "yes"}
Next == /\ n < Steps /\ n' = n + 1 /\ UNCHANGED start
        /\ \E a \in Applicable(cur) : /\ cur' = ImplOut(a[1][1], a[1][2], cur, a[2])
                                       /\ script' = IF EmitScripts THEN Append(script, <<a[1][1], a[1][2], a[2]>>) ELSE script
        /\ TSize(cur') <= 24
\* every applicable model step from the current term is allowed by the contract
StepsAllowed == \A a \in Applicable(cur) : ImplStepAllowed(a[1][1], a[1][2], cur, a[2])
\* sessions stay equivalent to their start
SessionEquivalent == IF start.k = "eq" THEN cur.k = "eq" /\ SameSolutions(start, cur) ELSE Equiv(start, cur)
\* spec -> code: every maximal model behaviour is written out as a script for replay into the real rules
Emit == (EmitScripts /\ n = Steps) => PrintT(<<"W", start, script, cur>>)
Count == TLCGet("generated") >= 0 /\ PrintT(<<"TERMS", TLCGet("distinct")>>)
=============================================================================
