INIT Init
NEXT Next
CONSTANTS
  LeafChoice = "small"
  Steps = 0
  EmitScripts = FALSE
  Thin = TRUE
INVARIANT StepsAllowed
POSTCONDITION Count
CHECK_DEADLOCK FALSE
