INIT Init
NEXT Next
CONSTANTS
  LeafChoice = "small"
  Steps = 2
  EmitScripts = TRUE
  Thin = TRUE
INVARIANT SessionEquivalent
CONSTRAINT Emit
POSTCONDITION Count
CHECK_DEADLOCK FALSE
