INIT Init
NEXT Next
CONSTANTS
  LeafChoice = "small"
  Steps = 2
  EmitScripts = FALSE
  Thin = TRUE
INVARIANT StepsAllowed
INVARIANT SessionEquivalent
POSTCONDITION Count
CHECK_DEADLOCK FALSE
