INIT Init
NEXT Next
CONSTANTS
  LeafChoice = "small"
  Steps = 0
  Thin = FALSE
INVARIANT StepsAllowed
POSTCONDITION Count
CHECK_DEADLOCK FALSE
