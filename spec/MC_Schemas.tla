------------------------------ MODULE MC_Schemas ------------------------------
(* spec -> code: TLC instantiates every schema of Schemas.tla and writes the instances out for replay into the
   real rules. (That each documented result means the same as its input is checked per instance by TraceSchema.) *)
EXTENDS Schemas, Json, IOUtils, SequencesExt
CaseSeq == SetToSeq(AllCases)
ASSUME ndJsonSerialize(IOEnv.CASES_FILE, CaseSeq)
ASSUME PrintT(<<"CASES", Len(CaseSeq)>>)
VARIABLES i
Init == i = 0
Next == i < 1 /\ i' = i + 1
=============================================================================
