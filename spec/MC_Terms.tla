------------------------------- MODULE MC_Terms -------------------------------
(* TLC enumerates, for every multiset of addends of the given size over NForms term forms, the whole
   rearrangement class (all orderings x all groupings) by closing the left chain under the AC moves, checks
   that every move keeps the bag of addends, and prints each member for replay into the real code. *)
EXTENDS Terms, TLC
CONSTANTS NForms, Size, ClassStride
VARIABLES base, t
vars == <<base, t>>
\* non-decreasing index sequences = multisets; ClassStride thins them out deterministically for the quick tier
RECURSIVE Multisets(_,_)
Multisets(k, lo) == IF k = 0 THEN {<<>>} ELSE UNION {{<<i>> \o m : m \in Multisets(k - 1, i)} : i \in lo..NForms}
RECURSIVE Weight(_)
Weight(s) == IF Len(s) = 0 THEN 0 ELSE Head(s) * (Len(s) + 2) + Weight(Tail(s))
Init == base \in {m \in Multisets(Size, 1) : Weight(m) % ClassStride = 0} /\ t = LeftChain(base)
Next == t' \in Moves(t) /\ UNCHANGED base
Spec == Init /\ [][Next]_vars
BagKept == BagOf(FlattenT(t)) = BagOf(base)
Emit == PrintT(<<"R", base, t>>)
=============================================================================
