SPECIFICATION Spec
CONSTANTS
  NForms = 12
  Size = 3
  ClassStride = 1
INVARIANT BagKept
CONSTRAINT Emit
CHECK_DEADLOCK FALSE
