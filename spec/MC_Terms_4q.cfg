SPECIFICATION Spec
CONSTANTS
  NForms = 12
  Size = 4
  ClassStride = 9
INVARIANT BagKept
CONSTRAINT Emit
CHECK_DEADLOCK FALSE
