SPECIFICATION Spec
CONSTANTS
  NForms = 12
  Size = 5
  ClassStride = 40
INVARIANT BagKept
CONSTRAINT Emit
CHECK_DEADLOCK FALSE
