---------------------------- MODULE MC_Tokenizer ----------------------------
(* Exhaustive exploration of the tokenizer state machine over all strings up to MaxLen over
   Alphabet, both padding modes, two function tables; checks the C11 invariants on the model. *)
EXTENDS Tokenizer, TLC
CONSTANTS MaxLen, Alphabet
Sgn == <<115, 103, 110>>
AbsN == <<97, 98, 115>>
FuncTables == {{Sgn}, {Sgn, AbsN}}
VARIABLES buf, keepPad, funcs, s, phase
vars == <<buf, keepPad, funcs, s, phase>>
Init == buf = <<>> /\ keepPad \in BOOLEAN /\ funcs \in FuncTables /\ s = Start /\ phase = "grow"
Grow == phase = "grow" /\ Len(buf) < MaxLen /\ \E c \in Alphabet : buf' = Append(buf, c)
        /\ UNCHANGED <<keepPad, funcs, s, phase>>
Begin == phase = "grow" /\ phase' = "scan" /\ UNCHANGED <<buf, keepPad, funcs, s>>
Scan == phase = "scan" /\ s.st = "run" /\ s' = StepOf(buf, keepPad, funcs, s)
        /\ UNCHANGED <<buf, keepPad, funcs, phase>>
Next == Grow \/ Begin \/ Scan
Spec == Init /\ [][Next]_vars

\* --- invariants (C11 on the model) ---
PrefixLossless == (phase = "scan" /\ keepPad /\ s.st # "rejected") =>
                     ConcatVals(SelectSeq(s.toks, LAMBDA t : t.t # TEOF)) = NormSeq(SubSeq(buf, 1, s.idx - 1))
Terminal == phase = "scan" /\ s.st # "run"
EOFInv == (Terminal /\ s.st = "done") => OneEOFLast(s.toks)
NoEOFEarly == (phase = "scan" /\ s.st = "run") => \A i \in 1..Len(s.toks) : s.toks[i].t # TEOF
ClassInv == (phase = "scan" /\ s.st # "rejected") => ClassesOK(s.toks, funcs, keepPad)
FuncInv == (Terminal /\ s.st = "done" /\ keepPad) => NoMissedFunction(s.toks, funcs)
RejectInv == Terminal => ((s.st = "rejected") <=> HasUnsupported(buf))
DropInv == (Terminal /\ s.st = "done" /\ keepPad) => SpecTokens(buf, FALSE, funcs).toks = DropPad(s.toks)
FunctionalAgrees == Terminal => SpecTokens(buf, keepPad, funcs) = [ok |-> s.st = "done", toks |-> IF s.st = "done" THEN s.toks ELSE <<>>]
Progress == [][(phase = "scan" /\ phase' = "scan") => (s'.idx > s.idx \/ s'.st # "run")]_vars
=============================================================================
