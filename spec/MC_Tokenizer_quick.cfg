SPECIFICATION Spec
CONSTANTS
  MaxLen = 3
  Alphabet = {48, 55, 46, 97, 115, 103, 110, 90, 43, 45, 8211, 42, 47, 94, 33, 61, 40, 41, 91, 93, 32, 9, 10, 35, 95, 1635}
INVARIANT PrefixLossless
INVARIANT EOFInv
INVARIANT NoEOFEarly
INVARIANT ClassInv
INVARIANT FuncInv
INVARIANT RejectInv
INVARIANT DropInv
INVARIANT FunctionalAgrees
PROPERTY Progress
CHECK_DEADLOCK FALSE
