-------------------------------- MODULE Misc --------------------------------
(***************************************************************************)
(* Behaviour of mathy_core beyond the eighteen listed properties:           *)
(*  - MathML rendering: the tag stream is a well-nested document (a stack   *)
(*    machine over open / close events) with one leaf tag per leaf node;    *)
(*  - terminal_text: a temporary rendering flag is set on every node for    *)
(*    the duration of the call and cleared afterwards; without the colour   *)
(*    codes the text is str(tree);                                          *)
(*  - add_class / clear_classes: classes behave as sets;                    *)
(*  - TokenSet: bit-mask sets with add (union) and contains (membership),   *)
(*    and the FIRST sets of the grammar are nested as the grammar says;     *)
(*  - rule names and two-letter codes are unique;                           *)
(*  - pad_array and truncate.                                               *)
(***************************************************************************)
EXTENDS Integers, Sequences, FiniteSets

\* ---- well-nestedness of a tag stream: events <<"o", name>> / <<"c", name>> ----
RECURSIVE RunTags(_,_)
RunTags(evs, stack) ==
  IF Len(evs) = 0 THEN (IF Len(stack) = 0 THEN "balanced" ELSE "unclosed")
  ELSE LET e == Head(evs) IN
       IF e[1] = "o" THEN RunTags(Tail(evs), <<e[2]>> \o stack)
       ELSE IF Len(stack) = 0 THEN "close_without_open"
       ELSE IF Head(stack) # e[2] THEN "mismatched"
       ELSE RunTags(Tail(evs), Tail(stack))
WellNested(evs) == RunTags(evs, <<>>) = "balanced"
CountOpen(evs, name) == Cardinality({i \in 1..Len(evs) : evs[i] = <<"o", name>>})

\* ---- classes as sets ----
SeqSet(s) == {s[i] : i \in 1..Len(s)}
NoDup(s) == Cardinality(SeqSet(s)) = Len(s)

\* ---- token sets as sets of bit positions ----
Bits(n) == {b \in 0..14 : (n \div (2 ^ b)) % 2 = 1}
=============================================================================
