------------------------------- MODULE Numbers -------------------------------
(***************************************************************************)
(* Exact arithmetic usable inside TLC's 32-bit integers.                    *)
(*  - prime-field arithmetic modulo a parameter m (m*m < 2^31)              *)
(*  - small exact rationals <<n, d>> with overflow guards (UndefQ on overflow)*)
(*  - decimal digit strings folded into a field element (big literals)      *)
(***************************************************************************)
EXTENDS Integers, Sequences
P  == 46337          \* main modulus  (P*P  < 2^31)
P2 == 46327          \* second modulus for thorough runs
Undef == -1          \* "not defined at this point" (division by zero, bad exponent, ...)
Falsified == -2      \* an equation whose sides differ at this point

ModM(a, m) == ((a % m) + m) % m
RECURSIVE PowM(_,_,_)
PowM(b, e, m) == IF e = 0 THEN 1 % m
                 ELSE IF e % 2 = 0 THEN LET h == PowM(b, e \div 2, m) IN (h * h) % m
                 ELSE (b * PowM(b, e - 1, m)) % m
InvM(a, m) == PowM(a, m - 2, m)
\* decimal digits (most significant first) -> field element; by index (Tail copies the sequence: quadratic on 4,000-digit literals)
RECURSIVE FoldDigitsFrom(_,_,_,_)
FoldDigitsFrom(ds, i, acc, m) == IF i > Len(ds) THEN acc ELSE FoldDigitsFrom(ds, i + 1, (acc * 10 + ds[i]) % m, m)
FoldDigits(ds, acc, m) == FoldDigitsFrom(ds, 1, acc, m)
RECURSIVE FactM(_,_)
FactM(n, m) == IF n <= 1 THEN 1 % m ELSE (n * FactM(n - 1, m)) % m

(* small exact rationals *)
UndefQ == <<0, 0>>
Lim == 32768
AbsI(x) == IF x < 0 THEN -x ELSE x
RECURSIVE Gcd(_,_)
Gcd(a, b) == IF b = 0 THEN a ELSE Gcd(b, a % b)
NormQ(n, d) == IF d = 0 THEN UndefQ ELSE
               LET g == Gcd(AbsI(n), AbsI(d))  s == IF d < 0 THEN -1 ELSE 1
                   nn == s * (n \div g)  dd == s * (d \div g)
               IN IF AbsI(nn) > Lim \/ dd > Lim THEN UndefQ ELSE <<nn, dd>>
RECURSIVE IPow(_,_)   \* saturating integer power
IPow(b, e) == IF e = 0 THEN 1 ELSE IF AbsI(b) > Lim THEN Lim + 1
              ELSE LET r == IPow(b, e - 1) IN IF AbsI(r) > Lim THEN Lim + 1 ELSE b * r
AddQ(a, b) == IF a = UndefQ \/ b = UndefQ THEN UndefQ ELSE NormQ(a[1]*b[2] + b[1]*a[2], a[2]*b[2])
SubQ(a, b) == IF a = UndefQ \/ b = UndefQ THEN UndefQ ELSE NormQ(a[1]*b[2] - b[1]*a[2], a[2]*b[2])
MulQ(a, b) == IF a = UndefQ \/ b = UndefQ THEN UndefQ ELSE NormQ(a[1]*b[1], a[2]*b[2])
DivQ(a, b) == IF a = UndefQ \/ b = UndefQ \/ b[1] = 0 THEN UndefQ ELSE NormQ(a[1]*b[2], a[2]*b[1])
PowQ(a, b) == IF a = UndefQ \/ b = UndefQ \/ b[2] # 1 \/ AbsI(b[1]) > 14 THEN UndefQ
              ELSE IF b[1] >= 0 THEN NormQ(IPow(a[1], b[1]), IPow(a[2], b[1]))
              ELSE IF a[1] = 0 THEN UndefQ ELSE NormQ(IPow(a[2], -b[1]), IPow(a[1], -b[1]))
=============================================================================
