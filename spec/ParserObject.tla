---------------------------- MODULE ParserObject ----------------------------
(***************************************************************************)
(* The long-lived ExpressionParser object (C12, C10 sticky state).          *)
(* Token lists are mutable objects holding mutable Token objects: `lists`   *)
(* maps a list identity to a sequence of token-object identities, `tok` maps *)
(* a token object to its current value (<<text, configuration, position>>). *)
(* The parser  *)
(* owns a token cache (text -> list identity) and a parse cache; `_parse`   *)
(* CONSUMES the list it is given; clients may edit any list handed to them. *)
(* Two mechanisms make results history-free, each switchable so that TLC    *)
(* shows it is necessary:                                                   *)
(*   CopyOnReturn : tokenize hands out a copy of the cached list            *)
(*   ResetCursor  : every parse starts from a fresh cursor                  *)
(*   CopyTokens   : the copy handed out holds copies of the Token objects    *)
(*                  (a shallow list copy shares them with the cache: a client *)
(*                  that edits a token's value / type edits the cache)        *)
(* The parser's tokenizer is public and reconfigurable (exclude_padding,     *)
(* the function registry): `mode` is the current configuration. The caches   *)
(* are keyed by text only, so entries made under another configuration are   *)
(* stale until clear_cache() - which must drop BOTH caches (ClearDropsTokens)*)
(* for the new configuration to take effect.                                 *)
(***************************************************************************)
EXTENDS Integers, Sequences, FiniteSets, TLC
CONSTANTS Texts,          \* abstract input strings
          TokLen,         \* [Texts -> Nat]: number of tokens (0 = tokenizing raises ValueError)
          ParseOK,        \* [Texts -> BOOLEAN]: does the fresh parser accept
          CopyOnReturn, ResetCursor, CopyTokens, MaxLists, MaxSteps,
          Modes,          \* tokenizer configurations; TokLen / ParseOK are per configuration: [Modes -> [Texts -> ...]]
          ClearDropsTokens

FreshTokensM(t, m) == [j \in 1..TokLen[m][t] |-> <<t, m, j>>]
TokenizableM(t, m) == TokLen[m][t] > 0
\* what a fresh parser configured as m answers
FreshTokM(t, m)   == IF TokenizableM(t, m) THEN <<"tokens", FreshTokensM(t, m)>> ELSE <<"raise", "ValueError">>
FreshParseM(t, m) == IF ~TokenizableM(t, m) THEN <<"raise", "ValueError">>
                     ELSE IF ParseOK[m][t] THEN <<"tree", t, m>> ELSE <<"raise", "ParserException">>

VARIABLES lists,       \* list identity -> sequence of token-object identities
          tok,         \* token-object identity -> its current value (a sequence indexed by identity)
          tokCache,    \* text -> list identity (partial function as a set of pairs)
          parseCache,  \* set of texts whose tree is cached
          cursorEOF,   \* the cursor was left on the end marker by the previous parse
          handed,      \* list identities the client holds
          last,        \* last API call and its result: <<op, text, result>>
          steps,
          mode,        \* current configuration of the parser's tokenizer
          stale        \* texts with a cache entry made under a configuration that has since been changed (no clear_cache since)
vars == <<lists, tok, tokCache, parseCache, cursorEOF, handed, last, steps, mode, stale>>
Junk == <<"junk", "none", 0>>
\* the values a list currently shows
Vals(ls, tk, id) == [i \in 1..Len(ls[id]) |-> tk[ls[id][i]]]
\* allocate objects for the values vs: <<new store, their identities>>
Alloc(tk, vs) == <<tk \o vs, [i \in 1..Len(vs) |-> Len(tk) + i]>>
FreshTokens(t) == FreshTokensM(t, mode)
Tokenizable(t) == TokenizableM(t, mode)
FreshTok(t) == FreshTokM(t, mode)
FreshParse(t) == FreshParseM(t, mode)

Cached(t) == \E p \in tokCache : p[1] = t
ListOf(t) == (CHOOSE p \in tokCache : p[1] = t)[2]
NewId == Cardinality(DOMAIN lists) + 1
Put(ls, id, content) == [i \in DOMAIN ls \cup {id} |-> IF i = id THEN content ELSE ls[i]]

Init == /\ lists = <<>> /\ tok = <<>> /\ tokCache = {} /\ parseCache = {} /\ cursorEOF = FALSE
        /\ handed = {} /\ last = <<"none", "none", <<"none">>>> /\ steps = 0
        /\ mode \in Modes /\ stale = {}

\* internal: make sure text t is in the token cache; returns the identity the caller receives
\* (a copy when CopyOnReturn - of the list only, or of the Token objects too when CopyTokens -, else the cached list itself)
TokenizeEffect(t, ls, tk, tc) ==
  LET hit == \E p \in tc : p[1] = t
      a1  == IF hit THEN <<tk, <<>>>> ELSE Alloc(tk, FreshTokens(t))
      ls1 == IF hit THEN ls ELSE Put(ls, Cardinality(DOMAIN ls) + 1, a1[2])
      tc1 == IF hit THEN tc ELSE tc \cup {<<t, Cardinality(DOMAIN ls) + 1>>}
      cid == (CHOOSE p \in tc1 : p[1] = t)[2]
      rid == IF CopyOnReturn THEN Cardinality(DOMAIN ls1) + 1 ELSE cid
      a2  == IF CopyOnReturn /\ CopyTokens THEN Alloc(a1[1], Vals(ls1, a1[1], cid)) ELSE <<a1[1], ls1[cid]>>
      ls2 == IF CopyOnReturn THEN Put(ls1, rid, a2[2]) ELSE ls1
  IN [lists |-> ls2, tok |-> a2[1], tokCache |-> tc1, rid |-> rid]

Tokenize(t) ==
  /\ Cardinality(DOMAIN lists) + 2 <= MaxLists
  /\ IF ~Cached(t) /\ ~Tokenizable(t)
     THEN /\ last' = <<"tokenize", t, <<"raise", "ValueError">>>>
          /\ UNCHANGED <<lists, tok, tokCache, handed>>
     ELSE LET e == TokenizeEffect(t, lists, tok, tokCache) IN
          /\ lists' = e.lists /\ tok' = e.tok /\ tokCache' = e.tokCache /\ handed' = handed \cup {e.rid}
          /\ last' = <<"tokenize", t, <<"tokens", Vals(e.lists, e.tok, e.rid)>>>>
  /\ UNCHANGED <<parseCache, cursorEOF>>

\* _parse consumes the list it is given; its outcome depends on the CONTENT it finds there
Parse(t) ==
  /\ Cardinality(DOMAIN lists) + 2 <= MaxLists
  /\ IF \E q \in parseCache : q[1] = t
     THEN /\ last' = <<"parse", t, <<"tree", t, (CHOOSE q \in parseCache : q[1] = t)[2]>>>> /\ UNCHANGED <<lists, tok, tokCache, parseCache, cursorEOF, handed>>
     ELSE IF ~Cached(t) /\ ~Tokenizable(t)
     THEN /\ last' = <<"parse", t, <<"raise", "ValueError">>>> /\ UNCHANGED <<lists, tok, tokCache, parseCache, cursorEOF, handed>>
     ELSE LET e == TokenizeEffect(t, lists, tok, tokCache)
              content == Vals(e.lists, e.tok, e.rid)
              intact == content = FreshTokens(t)
              staleCur == cursorEOF /\ ~ResetCursor          \* "parsed beyond the end of the expression"
              \* a token list made under another configuration is read with the current function table
              made == IF Len(content) > 0 /\ content[1][2] \in Modes THEN content[1][2] ELSE mode
              outcome == IF staleCur THEN <<"raise", "OutOfTokens">>
                         ELSE IF intact THEN FreshParse(t)
                         ELSE IF content = FreshTokensM(t, made) THEN <<"mixed", t, made, mode>>   \* old tokens read with the current function table: unspecified
                         ELSE <<"corrupt", content>>
          IN /\ lists' = [e.lists EXCEPT ![e.rid] = <<>>]                \* consumed
             /\ tok' = e.tok
             /\ tokCache' = e.tokCache
             /\ parseCache' = IF outcome[1] = "tree" THEN parseCache \cup {<<t, outcome[3]>>} ELSE parseCache
             /\ cursorEOF' = (outcome[1] = "tree")
             /\ last' = <<"parse", t, outcome>>
             /\ UNCHANGED handed
\* the call is made from deep inside the caller's own recursion and runs out of stack part-way: the tokens may have been
\* cached, the cursor is left wherever it was, nothing is added to the parse cache
DeepCall(t) ==
  /\ Cardinality(DOMAIN lists) + 2 <= MaxLists
  /\ ~(\E q \in parseCache : q[1] = t) /\ (Cached(t) \/ Tokenizable(t))
  /\ LET e == TokenizeEffect(t, lists, tok, tokCache) IN
       /\ lists' = [e.lists EXCEPT ![e.rid] = <<>>] /\ tok' = e.tok /\ tokCache' = e.tokCache
  /\ cursorEOF' \in BOOLEAN
  /\ last' = <<"deepcall", t, <<"raise", "RecursionError">>>>
  /\ UNCHANGED <<parseCache, handed>>
Clear == /\ tokCache' = (IF ClearDropsTokens THEN {} ELSE tokCache) /\ parseCache' = {} /\ last' = <<"clear", "none", <<"none">>>>
         /\ stale' = {}
         /\ UNCHANGED <<lists, tok, cursorEOF, handed, mode>>
\* the client reconfigures the parser's public tokenizer; nothing else happens until the next call
Configure(m) == /\ m # mode /\ mode' = m
                /\ stale' = stale \cup {p[1] : p \in tokCache} \cup {q[1] : q \in parseCache}
                /\ last' = <<"config", "none", <<"none">>>>
                /\ UNCHANGED <<lists, tok, tokCache, parseCache, cursorEOF, handed>>
\* the client consumes / edits a list it was handed
ClientPop(id)    == /\ id \in handed /\ Len(lists[id]) > 0 /\ lists' = [lists EXCEPT ![id] = Tail(@)]
                    /\ UNCHANGED <<tok, tokCache, parseCache, cursorEOF, handed, last, mode, stale>>
ClientAppend(id) == /\ id \in handed /\ Len(lists[id]) < 4
                    /\ tok' = Append(tok, Junk) /\ lists' = [lists EXCEPT ![id] = Append(@, Len(tok) + 1)]
                    /\ UNCHANGED <<tokCache, parseCache, cursorEOF, handed, last, mode, stale>>
\* ... or edits a Token object it finds in such a list (its value / type attributes are public)
ClientMutate(id) == /\ id \in handed /\ Len(lists[id]) > 0 /\ tok[lists[id][1]] # Junk
                    /\ tok' = [tok EXCEPT ![lists[id][1]] = Junk]
                    /\ UNCHANGED <<lists, tokCache, parseCache, cursorEOF, handed, last, mode, stale>>
Next == /\ steps < MaxSteps /\ steps' = steps + 1
        /\ \/ \E t \in Texts : (Tokenize(t) \/ Parse(t) \/ DeepCall(t)) /\ UNCHANGED <<mode, stale>>
           \/ Clear
           \/ \E m \in Modes : Configure(m)
           \/ \E id \in handed : ClientPop(id) \/ ClientAppend(id) \/ ClientMutate(id)
Spec == Init /\ [][Next]_vars

\* C12 / C10: whatever happened before, every answer is the fresh parser's answer
\* ... of a fresh parser configured like this one - except for texts whose cache entry predates a reconfiguration
\* (those keep answering as configured then, until clear_cache)
HistoryFree ==
  /\ (last[1] = "tokenize" /\ last[2] \notin stale) => last[3] = FreshTok(last[2])
  /\ (last[1] = "parse" /\ last[2] \notin stale)    => last[3] = FreshParse(last[2])
  /\ (last[1] = "tokenize" /\ last[2] \in stale) => \E m \in Modes : last[3] = FreshTokM(last[2], m)
  \* parse of a stale text: unspecified (old tokens, current function table) - the client has to clear_cache first
\* handed-out lists are independent of the cache
Independent == \A id \in handed : \A p \in tokCache : p[2] # id
\* the cache itself is never damaged
CacheIntact == \A p \in tokCache : \E m \in Modes : Vals(lists, tok, p[2]) = FreshTokensM(p[1], m)
=============================================================================
