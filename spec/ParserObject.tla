---------------------------- MODULE ParserObject ----------------------------
(***************************************************************************)
(* The long-lived ExpressionParser object (C12, C10 sticky state).          *)
(* Token lists are mutable objects: `lists` maps a list identity to its     *)
(* content (a sequence of abstract tokens <<text, position>>).  The parser  *)
(* owns a token cache (text -> list identity) and a parse cache; `_parse`   *)
(* CONSUMES the list it is given; clients may edit any list handed to them. *)
(* Two mechanisms make results history-free, each switchable so that TLC    *)
(* shows it is necessary:                                                   *)
(*   CopyOnReturn : tokenize hands out a copy of the cached list            *)
(*   ResetCursor  : every parse starts from a fresh cursor                  *)
(***************************************************************************)
EXTENDS Integers, Sequences, FiniteSets, TLC
CONSTANTS Texts,          \* abstract input strings
          TokLen,         \* [Texts -> Nat]: number of tokens (0 = tokenizing raises ValueError)
          ParseOK,        \* [Texts -> BOOLEAN]: does the fresh parser accept
          CopyOnReturn, ResetCursor, MaxLists, MaxSteps

FreshTokens(t) == [j \in 1..TokLen[t] |-> <<t, j>>]
Tokenizable(t) == TokLen[t] > 0
\* what a fresh parser answers
FreshTok(t)   == IF Tokenizable(t) THEN <<"tokens", FreshTokens(t)>> ELSE <<"raise", "ValueError">>
FreshParse(t) == IF ~Tokenizable(t) THEN <<"raise", "ValueError">>
                 ELSE IF ParseOK[t] THEN <<"tree", t>> ELSE <<"raise", "ParserException">>

VARIABLES lists,       \* list identity -> content
          tokCache,    \* text -> list identity (partial function as a set of pairs)
          parseCache,  \* set of texts whose tree is cached
          cursorEOF,   \* the cursor was left on the end marker by the previous parse
          handed,      \* list identities the client holds
          last,        \* last API call and its result: <<op, text, result>>
          steps
vars == <<lists, tokCache, parseCache, cursorEOF, handed, last, steps>>

Cached(t) == \E p \in tokCache : p[1] = t
ListOf(t) == (CHOOSE p \in tokCache : p[1] = t)[2]
NewId == Cardinality(DOMAIN lists) + 1
Put(ls, id, content) == [i \in DOMAIN ls \cup {id} |-> IF i = id THEN content ELSE ls[i]]

Init == /\ lists = <<>> /\ tokCache = {} /\ parseCache = {} /\ cursorEOF = FALSE
        /\ handed = {} /\ last = <<"none", "none", <<"none">>>> /\ steps = 0

\* internal: make sure text t is in the token cache; returns the identity the caller receives
\* (a copy when CopyOnReturn, else the cached list itself)
TokenizeEffect(t, ls, tc) ==
  LET ls1 == IF \E p \in tc : p[1] = t THEN ls ELSE Put(ls, Cardinality(DOMAIN ls) + 1, FreshTokens(t))
      tc1 == IF \E p \in tc : p[1] = t THEN tc ELSE tc \cup {<<t, Cardinality(DOMAIN ls) + 1>>}
      cid == (CHOOSE p \in tc1 : p[1] = t)[2]
      rid == IF CopyOnReturn THEN Cardinality(DOMAIN ls1) + 1 ELSE cid
      ls2 == IF CopyOnReturn THEN Put(ls1, rid, ls1[cid]) ELSE ls1
  IN [lists |-> ls2, tokCache |-> tc1, rid |-> rid]

Tokenize(t) ==
  /\ Cardinality(DOMAIN lists) + 2 <= MaxLists
  /\ IF ~Tokenizable(t)
     THEN /\ last' = <<"tokenize", t, <<"raise", "ValueError">>>>
          /\ UNCHANGED <<lists, tokCache, handed>>
     ELSE LET e == TokenizeEffect(t, lists, tokCache) IN
          /\ lists' = e.lists /\ tokCache' = e.tokCache /\ handed' = handed \cup {e.rid}
          /\ last' = <<"tokenize", t, <<"tokens", e.lists[e.rid]>>>>
  /\ UNCHANGED <<parseCache, cursorEOF>>

\* _parse consumes the list it is given; its outcome depends on the CONTENT it finds there
Parse(t) ==
  /\ Cardinality(DOMAIN lists) + 2 <= MaxLists
  /\ IF t \in parseCache
     THEN /\ last' = <<"parse", t, <<"tree", t>>>> /\ UNCHANGED <<lists, tokCache, parseCache, cursorEOF, handed>>
     ELSE IF ~Tokenizable(t)
     THEN /\ last' = <<"parse", t, <<"raise", "ValueError">>>> /\ UNCHANGED <<lists, tokCache, parseCache, cursorEOF, handed>>
     ELSE LET e == TokenizeEffect(t, lists, tokCache)
              content == e.lists[e.rid]
              stale == cursorEOF /\ ~ResetCursor          \* "parsed beyond the end of the expression"
              intact == content = FreshTokens(t)
              outcome == IF stale THEN <<"raise", "OutOfTokens">>
                         ELSE IF ~intact THEN <<"corrupt", content>>
                         ELSE FreshParse(t)
          IN /\ lists' = [e.lists EXCEPT ![e.rid] = <<>>]                \* consumed
             /\ tokCache' = e.tokCache
             /\ parseCache' = IF outcome[1] = "tree" THEN parseCache \cup {t} ELSE parseCache
             /\ cursorEOF' = (outcome[1] = "tree")
             /\ last' = <<"parse", t, outcome>>
             /\ UNCHANGED handed
Clear == /\ tokCache' = {} /\ parseCache' = {} /\ last' = <<"clear", "none", <<"none">>>>
         /\ UNCHANGED <<lists, cursorEOF, handed>>
\* the client consumes / edits a list it was handed
ClientPop(id)    == /\ id \in handed /\ Len(lists[id]) > 0 /\ lists' = [lists EXCEPT ![id] = Tail(@)]
                    /\ UNCHANGED <<tokCache, parseCache, cursorEOF, handed, last>>
ClientAppend(id) == /\ id \in handed /\ Len(lists[id]) < 4 /\ lists' = [lists EXCEPT ![id] = Append(@, <<"junk", 0>>)]
                    /\ UNCHANGED <<tokCache, parseCache, cursorEOF, handed, last>>
Next == /\ steps < MaxSteps /\ steps' = steps + 1
        /\ \/ \E t \in Texts : Tokenize(t) \/ Parse(t)
           \/ Clear
           \/ \E id \in handed : ClientPop(id) \/ ClientAppend(id)
Spec == Init /\ [][Next]_vars

\* C12 / C10: whatever happened before, every answer is the fresh parser's answer
HistoryFree ==
  /\ last[1] = "tokenize" => last[3] = FreshTok(last[2])
  /\ last[1] = "parse"    => last[3] = FreshParse(last[2])
\* handed-out lists are independent of the cache
Independent == \A id \in handed : \A p \in tokCache : p[2] # id
\* the cache itself is never damaged
CacheIntact == \A p \in tokCache : lists[p[2]] = FreshTokens(p[1])
=============================================================================
