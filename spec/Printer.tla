------------------------------- MODULE Printer -------------------------------
(***************************************************************************)
(* The printer of mathy_core (MathExpression.__str__ and its special cases)  *)
(* as a function from terms to text (code points), transcribed branch by     *)
(* branch - this is an implementation-shaped model, used (a) at model level: *)
(* TLC checks RoundTrip(t) == the reference grammar reads PrintText(t) back to   *)
(* the same meaning, for every term the parser can produce up to a depth     *)
(* bound, which exhibits missing-parenthesis designs without running code;   *)
(* (b) at trace level: the real str() is compared with Print (drift only).   *)
(***************************************************************************)
EXTENDS Grammar

Paren(s) == <<40>> \o s \o <<41>>
RECURSIVE NatText(_)
NatText(n) == IF n < 10 THEN <<48 + n>> ELSE NatText(n \div 10) \o <<48 + (n % 10)>>
IntText(n) == IF n < 0 THEN <<45>> \o NatText(-n) ELSE NatText(n)
\* terminating decimals only (denominator 2^a 5^b with at most 4 digits after the point); <<>> = not printable here
RECURSIVE DecDigits(_,_,_)
DecDigits(n, d, k) == IF (n * IPow(10, k)) % d = 0 THEN <<(n * IPow(10, k)) \div d, k>> ELSE IF k >= 4 THEN <<0, -1>> ELSE DecDigits(n, d, k + 1)
RECURSIVE PadZeros(_,_)
PadZeros(s, k) == IF Len(s) >= k THEN s ELSE PadZeros(<<48>> \o s, k)
ConstText(t) ==
  IF HasDigits(t) THEN (IF t.sg < 0 THEN <<45>> ELSE <<>>) \o
        (IF t.sc = 0 THEN [i \in 1..Len(t.dg) |-> 48 + t.dg[i]]
         ELSE LET ds == PadZeros([i \in 1..Len(t.dg) |-> 48 + t.dg[i]], t.sc + 1) IN
              SubSeq(ds, 1, Len(ds) - t.sc) \o <<46>> \o SubSeq(ds, Len(ds) - t.sc + 1, Len(ds)))
  ELSE LET q == NormQ(t.n, t.d) IN
       IF q[2] = 1 THEN IntText(q[1])
       ELSE LET dd == DecDigits(AbsI(q[1]), q[2], 1) IN
            IF dd[2] < 0 THEN <<63>>       \* '?': not a short terminating decimal (not used in the model domain)
            ELSE LET ds == PadZeros(NatText(dd[1]), dd[2] + 1) IN
                 (IF q[1] < 0 THEN <<45>> ELSE <<>>) \o SubSeq(ds, 1, Len(ds) - dd[2]) \o <<46>> \o SubSeq(ds, Len(ds) - dd[2] + 1, Len(ds))
Printable(t) == HasDigits(t) \/ (t.d # 0 /\ (LET q == NormQ(t.n, t.d) IN q # UndefQ /\ (q[2] = 1 \/ DecDigits(AbsI(q[1]), q[2], 1)[2] >= 0)))

Pri(k) == CASE k \in {"add", "sub"} -> 0 [] k \in {"mul", "div"} -> 1 [] k = "pow" -> 2 [] OTHER -> -1
\* BinaryExpression.self_parens: pk = kind of the parent, sd = side of this node under it
SelfParens(k, pk, sd) ==
  IF ~IsBin(pk) THEN FALSE
  ELSE IF Pri(pk) > Pri(k) THEN TRUE
  ELSE IF Pri(pk) = Pri(k) THEN
         \/ (sd = "R" /\ k \in {"add", "sub"} /\ pk \in {"add", "sub"})
         \/ (sd = "L" /\ k \in {"mul", "div"} /\ pk \in {"mul", "div"})
         \/ (sd = "R" /\ k \in {"mul", "div"} /\ pk = "div")
  ELSE FALSE
\* MultiplyExpression.is_compact: 4x, 4x^2
IsCompact(t) == t.k = "mul" /\ t.l.k = "c" /\ (t.r.k = "v" \/ (t.r.k = "pow" /\ t.r.l.k = "v"))
OpText(k) == CASE k = "add" -> <<32, 43, 32>> [] k = "sub" -> <<32, 45, 32>> [] k = "mul" -> <<32, 42, 32>>
               [] k = "div" -> <<32, 47, 32>> [] k = "eq" -> <<32, 61, 32>> [] OTHER -> <<63>>
ConstNegative(t) == IF HasDigits(t) THEN t.sg < 0 ELSE (t.n < 0) # (t.d < 0)

\* NegateExpression._needs_parens(inner): npk = kind of the negation's parent
\* walk down to whatever the text of inner starts with; cur's parent kind / side are tracked for self_parens
RECURSIVE SpineNeeds(_,_,_,_)
SpineNeeds(cur, pk, sd, isInner) ==
  IF IsBin(cur.k) /\ SelfParens(cur.k, pk, sd) /\ ~IsCompact(cur) THEN FALSE
  ELSE IF cur.k = "fact" THEN SpineNeeds(cur.c, "fact", "R", FALSE)
  ELSE IF IsBin(cur.k) THEN SpineNeeds(cur.l, cur.k, "L", FALSE)
  ELSE IF cur.k = "neg" THEN TRUE
  ELSE IF cur.k = "c" THEN ConstNegative(cur) \/ (~isInner /\ pk \in {"pow", "fact"})
  ELSE FALSE
\* a product or quotient under a negation that is itself a divisor or exponent: "-x * y" would be read as (-x) * y
DivisorRule(inner, npk, text) == inner.k \in {"mul", "div"} /\ npk \in {"div", "pow"} /\ ~IsCompact(inner)
NeedsParens(inner, npk, text) == DivisorRule(inner, npk, text) \/ SpineNeeds(inner, "neg", "R", TRUE)

RECURSIVE Pr(_,_,_)
Pr(t, pk, sd) ==
  CASE t.k = "c" -> ConstText(t)
    [] t.k = "v" -> <<t.id>>
    [] t.k = "neg" -> LET inner == Pr(t.c, "neg", "R") IN
                      <<45>> \o (IF t.c.k \in {"add", "sub"} \/ NeedsParens(t.c, pk, inner) THEN Paren(inner) ELSE inner)
    [] t.k = "fact" -> Pr(t.c, "fact", "R") \o <<33>>
    [] t.k = "sgn" -> <<115, 103, 110>> \o Paren(Pr(t.c, "sgn", "R"))
    [] t.k = "abs" -> <<97, 98, 115>> \o Paren(Pr(t.c, "abs", "R"))
    [] t.k = "pow" -> LET l == Pr(t.l, "pow", "L")  r == Pr(t.r, "pow", "R") IN
                      (IF t.l.k \in {"neg", "pow"} \/ IsCompact(t.l) THEN Paren(l) ELSE l) \o <<94>> \o (IF t.r.k = "pow" THEN Paren(r) ELSE r)
    [] t.k = "mul" /\ IsCompact(t) -> Pr(t.l, "mul", "L") \o Pr(t.r, "mul", "R")
    [] OTHER -> LET body == Pr(t.l, t.k, "L") \o OpText(t.k) \o Pr(t.r, t.k, "R") IN
                IF SelfParens(t.k, pk, sd) THEN Paren(body) ELSE body
PrintText(t) == Pr(t, "none", "-")

\* the reference grammar reads the printed text back to the same meaning
RoundTrip(t) == LET r == ParseText(PrintText(t)) IN r.ok /\ Same(r.ast, t) /\ Vars(r.ast) = Vars(t)
=============================================================================
