------------------------------ MODULE Problems ------------------------------
(***************************************************************************)
(* Contract of the problem generators (C17), over the text they return:      *)
(* it tokenises and the documented grammar derives it (Grammar.tla), the     *)
(* complexity is positive, and generators that promise a pair of like terms  *)
(* among distractors return a sum that really has two top-level addends with *)
(* the same variable and exponent.  The random source is modelled as a       *)
(* sequence of draws whose first K are forced to the lowest / middle /       *)
(* highest admissible value (DrawChoices), the rest coming from a seeded     *)
(* PRNG; the driver enumerates every forced prefix.                          *)
(***************************************************************************)
EXTENDS Grammar
DrawChoices == {"lo", "mid", "hi"}
\* top-level addends of a sum (through + and -; a subtracted addend keeps its key)
RECURSIVE Addends(_)
Addends(t) == IF t.k \in {"add", "sub"} THEN Addends(t.l) \o Addends(t.r) ELSE <<t>>
\* like-term key of a natural-order term: <<variable, exponent numerator, exponent denominator>> ; <<0,0,0>> = constant ; <<-1,0,0>> = not a term
NoKey == <<-1, 0, 0>>
PowKey(p) == IF p.l.k = "v" /\ p.r.k = "c" /\ ~HasDigits(p.r) /\ p.r.d # 0
             THEN LET q == NormQ(p.r.n, p.r.d) IN <<p.l.id, q[1], q[2]>> ELSE NoKey
TermKey(t) ==
  CASE t.k = "c" -> <<0, 0, 0>>
    [] t.k = "v" -> <<t.id, 1, 1>>
    [] t.k = "pow" -> PowKey(t)
    [] t.k = "neg" -> (IF t.c.k = "v" THEN <<t.c.id, 1, 1>> ELSE IF t.c.k = "pow" THEN PowKey(t.c) ELSE NoKey)
    [] t.k = "mul" -> (IF t.l.k # "c" THEN NoKey ELSE IF t.r.k = "v" THEN <<t.r.id, 1, 1>> ELSE IF t.r.k = "pow" THEN PowKey(t.r) ELSE NoKey)
    [] OTHER -> NoKey
HasLikePair(ast) == LET a == Addends(ast) IN
  \E i, j \in 1..Len(a) : i < j /\ TermKey(a[i]) = TermKey(a[j]) /\ TermKey(a[i])[1] > 0
\* the like pair is separated by exactly b other addends
LikePairSeparatedBy(ast, b) == LET a == Addends(ast) IN
  \E i, j \in 1..Len(a) : j = i + b + 1 /\ TermKey(a[i]) = TermKey(a[j]) /\ TermKey(a[i])[1] > 0
=============================================================================
