-------------------------------- MODULE Rules --------------------------------
(***************************************************************************)
(* The relational contract of ONE rewrite step (what any correct rule       *)
(* application must satisfy, whichever tree it builds) - properties C01,    *)
(* C02, C04, C06, C07 - stated over pointer-level heaps and their terms.    *)
(*   hb : universe before apply  (source tree `src` and the working clone)  *)
(*   ha : universe after apply   (same object numbering, new objects added) *)
(***************************************************************************)
EXTENDS ExprHeap, Printer

\* sibling subtrees hanging off the path stay identical; descent follows the path
RECURSIVE CtxOK(_,_,_)
CtxOK(s, o, path) ==
  IF Len(path) = 0 THEN TRUE
  ELSE /\ s.k = o.k
       /\ IF IsUn(s.k) THEN CtxOK(s.c, o.c, Tail(path))
          ELSE IF IsLeafK(s.k) THEN FALSE
          ELSE IF Head(path) = "L" THEN s.r = o.r /\ CtxOK(s.l, o.l, Tail(path))
               ELSE s.l = o.l /\ CtxOK(s.r, o.r, Tail(path))
\* the maximal '='-free subtree that contains the node: descend through eq nodes along the path
RECURSIVE SideAt(_,_)
SideAt(t, path) == IF t.k = "eq" /\ Len(path) > 0 THEN SideAt(IF Head(path) = "L" THEN t.l ELSE t.r, Tail(path)) ELSE t
RECURSIVE EqPrefix(_,_)      \* the part of the path that walks through '=' nodes
EqPrefix(t, path) == IF t.k = "eq" /\ Len(path) > 0
                     THEN <<Head(path)>> \o EqPrefix(IF Head(path) = "L" THEN t.l ELSE t.r, Tail(path)) ELSE <<>>
RECURSIVE TermAt(_,_)
TermAt(t, path) == IF Len(path) = 0 THEN t ELSE
                   IF IsUn(t.k) THEN TermAt(t.c, Tail(path)) ELSE TermAt(IF Head(path) = "L" THEN t.l ELSE t.r, Tail(path))
RECURSIVE PathExists(_,_)
PathExists(t, path) == IF Len(path) = 0 THEN TRUE ELSE
                       IF IsLeafK(t.k) THEN FALSE ELSE
                       IF IsUn(t.k) THEN PathExists(t.c, Tail(path)) ELSE PathExists(IF Head(path) = "L" THEN t.l ELSE t.r, Tail(path))
\* multiset of the maximal subtrees hanging off a path (used for the weaker context clause of the balanced move)
RECURSIVE SubtermSet(_)
SubtermSet(t) == {t} \cup (IF IsLeafK(t.k) THEN {} ELSE IF IsUn(t.k) THEN SubtermSet(t.c) ELSE SubtermSet(t.l) \cup SubtermSet(t.r))
RECURSIVE OffPath(_,_)
OffPath(t, path) == IF Len(path) = 0 \/ IsLeafK(t.k) THEN {} ELSE
                    IF IsUn(t.k) THEN OffPath(t.c, Tail(path)) ELSE
                    IF Head(path) = "L" THEN {t.r} \cup OffPath(t.l, Tail(path)) ELSE {t.l} \cup OffPath(t.r, Tail(path))

SameArrays(h1, h2, S) == \A i \in S : /\ h1.l[i] = h2.l[i] /\ h1.r[i] = h2.r[i] /\ h1.p[i] = h2.p[i]
                                      /\ h1.kind[i] = h2.kind[i] /\ h1.num[i] = h2.num[i] /\ h1.den[i] = h2.den[i]
                                      /\ h1.vid[i] = h2.vid[i] /\ h1.side[i] = h2.side[i] /\ h1.ex[i] = h2.ex[i]
\* number of divisions by the literal 0 in a term; a balanced move must not create one
RECURSIVE ZeroDivs(_)
ZeroDivs(t) == IF IsLeafK(t.k) THEN 0 ELSE IF IsUn(t.k) THEN ZeroDivs(t.c)
               ELSE ZeroDivs(t.l) + ZeroDivs(t.r) + (IF t.k = "div" /\ t.r.k = "c" /\ ~HasDigits(t.r) /\ t.r.d # 0 /\ t.r.n = 0 THEN 1 ELSE 0)
\* a constant of the result whose value the projection could not determine and that was not carried over from the source
InexactNew(s, o) == LET consts(t) == {x \in SubtermSet(t) : x.k = "c"} IN
                    \E c \in consts(o) : (c.d = 0 /\ ~HasDigits(c)) \/ (HasDigits(c) /\ c.xf = 1 /\ c \notin consts(s))

\* A step taken IN PLACE on a result that is not a proper tree (a node object under two parents - what an earlier step handed back):
\* the structure clauses do not apply to it, but it still unfolds to an expression, and the rewrite of that expression must keep its
\* value. Only reached when an earlier step broke C07; on trees the ordinary contract below applies.
DagOK(h, root) == /\ root # 0
                  /\ \A i \in Reach(h, root) : i \notin ReachAcc(h, Kids(h, i), {})          \* no cycle: the unfolding terminates
                  /\ \A c \in DOMAIN ArityClauses(h, root) : ArityClauses(h, root)[c]
SharedSourceVerdict(e, fValue) ==
  IF ~fValue \/ e.res = 0 \/ ~DagOK(e.hb, e.work) \/ ~DagOK(e.ha, e.res) THEN {"harness_source_not_wf"} ELSE
  LET s == TermOf(e.hb, e.work)  o == TermOf(e.ha, e.res) IN
  IF s.k = "eq" \/ ~Finite(s) \/ ~Finite(o) \/ InexactNew(s, o) \/ Equiv(s, o) THEN {"harness_source_not_wf"} ELSE {"value", "harness_source_not_wf"}

(* e: a recorded step. Fields: rule, opt, hb, src (root of source tree), work (root of the working clone),
   node (the node of the working clone the rule was applied to), outcome, ha, res (root of the result),
   printed-and-reparsed term `re` with reparse outcome. *)
StepVerdict(e, fValue, fSol, fRt) ==
  IF e.outcome # "ok" THEN {"raises_after_can_apply"} ELSE
  IF e.res = 0 THEN {"result_not_expression"} ELSE
  IF ~WFExpr(e.hb, e.work) THEN SharedSourceVerdict(e, fValue) ELSE
  LET wfo == WFExprFailing(e.ha, e.res)
      \* the tree the rewritten copy was cloned from: the harness's source tree, and - for the balanced move, which makes its own copy of
      \* the tree it is handed and rewrites that - also the tree it was handed (every other rule rewrites the tree it is handed in place)
      \* (a rule that hands back the very root object it was given works in place, and then that tree is the result, not a source)
      srcSet == Reach(e.hb, e.src) \cup (IF e.rule = "move" /\ RootOf(e.ha, e.work) # e.res THEN Reach(e.hb, e.work) ELSE {})
      srcOK == SameArrays(e.hb, e.ha, srcSet)
      shareOK == Reach(e.ha, e.res) \cap srcSet = {}
      base == (IF srcOK THEN {} ELSE {"source_modified"}) \cup (IF shareOK THEN {} ELSE {"shares_nodes_with_source"})
  IN IF wfo # {} THEN wfo \cup base ELSE
  LET s == TermOf(e.hb, e.work)
      o == TermOf(e.ha, e.res)
      path == PathTo(e.hb, e.node)
      ppath == IF Len(path) = 0 THEN <<>> ELSE SubSeq(path, 1, Len(path) - 1)
      isEq == s.k = "eq"
      global == e.rule = "move" \/ (e.rule = "comm" /\ e.hb.kind[e.node] = "eq")
      fin == Finite(o) /\ Finite(s)
      skipValue == InexactNew(s, o)
      eqp == EqPrefix(s, path)
      valueOK == IF ~fValue \/ ~fin \/ skipValue THEN TRUE
                 ELSE IF ~isEq THEN Equiv(s, o)
                 ELSE IF global THEN TRUE
                 ELSE PathExists(o, eqp) /\ Equiv(SideAt(s, path), TermAt(o, eqp))
      solOK == IF fSol /\ isEq /\ fin /\ ~skipValue THEN o.k = "eq" /\ SameSolutions(s, o) ELSE TRUE
      zeroOK == ~(e.rule = "move" /\ ZeroDivs(o) > ZeroDivs(s))
      varsOK == Vars(s) = Vars(o)
      ctxOK == IF e.rule = "move" THEN OffPath(s, ppath) \subseteq SubtermSet(o) /\ o.k = "eq"
               ELSE CtxOK(s, o, ppath)
      rtOK == IF ~fRt \/ ~Finite(o) THEN TRUE ELSE
                /\ e.reparse = "ok"
                /\ KnownKinds(e.re)
                /\ Same(o, e.re)
                /\ Vars(o) = Vars(e.re)
      \* the whole tree was rewritten (the node handed over was the root), yet the node named as the result still hangs under another
      \* node and the tree around it is the unchanged source: the rewrite never reached the tree - its "root" has a parent
      lostOK == ~("rn" \in DOMAIN e /\ e.rn # 0 /\ e.hb.p[e.node] = 0 /\ e.rn \in DOMAIN e.ha.p /\ e.ha.p[e.rn] # 0 /\ o = s)
  IN base
     \cup (IF lostOK THEN {} ELSE {"wf_result_of_root_rewrite_has_a_parent"})
     \cup (IF valueOK THEN {} ELSE {"value"}) \cup (IF solOK THEN {} ELSE {"solutions"})
     \cup (IF zeroOK THEN {} ELSE {"divides_by_zero"})
     \cup (IF varsOK THEN {} ELSE {"vars"}) \cup (IF ctxOK THEN {} ELSE {"context"})
     \cup (IF rtOK THEN {} ELSE {"roundtrip"})
     \cup (IF fin /\ skipValue THEN {"note_inexact_constant"} ELSE {})
     \cup (IF fValue /\ fin /\ ~skipValue /\ ~isEq /\ CommonDomain(s, o) = 0 THEN {"note_no_common_domain"} ELSE {})

(* e: answers of used rule objects vs brand-new rule objects on the identical tree (C06) *)
ReprobeVerdict(e) == IF e.used = e.fresh THEN {} ELSE {"answer_depends_on_rule_history"}
\* a result that was handed out stays what it was: every object of an earlier result tree (e.hb, taken when it was produced) is
\* unchanged (e.ha) after all the later calls of the same session on OTHER trees
IntactVerdict(e) == IF e.ha.n >= e.hb.n /\ SameArrays(e.hb, e.ha, 1..e.hb.n) THEN {} ELSE {"earlier_result_changed_by_later_calls"}

RECURSIVE AllPrintable(_)
AllPrintable(t) == CASE t.k = "c" -> Printable(t) [] t.k = "v" -> t.id < 128 [] IsUn(t.k) -> AllPrintable(t.c) [] OTHER -> AllPrintable(t.l) /\ AllPrintable(t.r)

(* e: a recorded str(tree) of a tree the parser produced, parsed back with the real parser (C04) *)
PrintVerdict(e) ==
  IF ~KnownKinds(e.t) THEN {} ELSE
  \* a tree with a constant that has no value (inf / nan): values cannot be compared, but its text must still be accepted and name the same variables
  IF ~Finite(e.t) THEN (IF e.reparse = "ok" /\ KnownKinds(e.re) /\ Vars(e.t) = Vars(e.re) THEN {} ELSE {"roundtrip"}) ELSE
  IF e.reparse # "ok" THEN {"roundtrip"} ELSE
  IF ~KnownKinds(e.re) THEN {"roundtrip"} ELSE
  (IF Same(e.t, e.re) /\ Vars(e.t) = Vars(e.re) THEN {} ELSE {"roundtrip"})
  \cup (IF AllPrintable(e.t) /\ e.pc # PrintText(e.t) THEN {"drift_printer_model"} ELSE {})

(* e: a recorded probe of one rule on one tree (C06: the applicability check is pure; searches agree with it) *)
ProbeVerdict(e) ==
  LET S == Reach(e.hb, e.root)
      io == IF WF(e.hb, e.root) THEN InOrderNodes(e.hb, e.root) ELSE <<>>
      n == Len(io)
      want == SelectSeq([k \in 1..n |-> k], LAMBDA k : e.a1[k])
  IN  (IF e.exc = "" THEN {} ELSE {"can_apply_raises"})
 \cup (IF SameArrays(e.hb, e.ha, 1..e.hb.n) /\ e.ha.n = e.hb.n THEN {} ELSE {"can_apply_modifies_tree"})
 \cup (IF e.a1 = e.a2 THEN {} ELSE {"can_apply_not_deterministic"})
 \cup (IF e.found = want THEN {} ELSE {"find_nodes_disagrees"})
 \cup (IF \A k \in 1..n : e.rindex[k] = k - 1 THEN {} ELSE {"r_index_wrong"})
 \cup (IF e.first = (IF Len(want) = 0 THEN 0 ELSE want[1]) THEN {} ELSE {"find_node_not_first"})
 \* searches started at an inner node report exactly the applicable nodes of that subtree, in the same order
 \cup (IF \A j \in 1..Len(e.subs) : LET sb == e.subs[j]  w == SelectSeq(want, LAMBDA k : k >= sb.lo /\ k <= sb.hi) IN
            sb.found = w /\ sb.first = (IF Len(w) = 0 THEN 0 ELSE w[1]) THEN {} ELSE {"find_nodes_disagrees"})
=============================================================================
