------------------------------ MODULE RulesImpl ------------------------------
(***************************************************************************)
(* Implementation-shaped model of the nine rewrite rules: for each rule the  *)
(* classifier (can_apply_to / get_type, one disjunct per branch, in the      *)
(* order the code tests them) and the tree it builds, on terms addressed by  *)
(* a path from the root.  Used                                               *)
(*  (a) at model level: TLC checks  ImplCan => the relational contract       *)
(*      (same value / same solution set, variables kept) over all small      *)
(*      terms and over rewriting sessions driven by the model alone;         *)
(*  (b) at trace level: the real can_apply_to answers and the real result    *)
(*      are compared with the model's (reported as DRIFT, never alarmed).    *)
(* Constants are exact rationals; cases the model does not cover             *)
(* (non-integer coefficients in the factor table, unprojectable constants)   *)
(* answer "unmodelled" and are excluded from both uses.                      *)
(***************************************************************************)
EXTENDS Rules, BigRat

RECURSIVE ReplaceAt(_,_,_)
ReplaceAt(t, path, u) ==
  IF Len(path) = 0 THEN u
  ELSE IF IsUn(t.k) THEN [t EXCEPT !.c = ReplaceAt(t.c, Tail(path), u)]
  ELSE IF Head(path) = "L" THEN [t EXCEPT !.l = ReplaceAt(t.l, Tail(path), u)]
  ELSE [t EXCEPT !.r = ReplaceAt(t.r, Tail(path), u)]
ParentPath(p) == SubSeq(p, 1, Len(p) - 1)
ParentKind(t, p) == IF Len(p) = 0 THEN "none" ELSE TermAt(t, ParentPath(p)).k
SideOf(p) == IF Len(p) = 0 THEN "-" ELSE p[Len(p)]
SiblingOf(t, p) == LET par == TermAt(t, ParentPath(p)) IN IF IsBin(par.k) THEN (IF SideOf(p) = "L" THEN par.r ELSE par.l) ELSE [k |-> "none"]
B(k, l, r) == [k |-> k, l |-> l, r |-> r]
U(k, c) == [k |-> k, c |-> c]
HasVal(c) == c.k = "c" /\ ~HasDigits(c) /\ c.d # 0 /\ NormQ(c.n, c.d) # UndefQ
ValQ(c) == NormQ(c.n, c.d)
CQ(q) == [k |-> "c", n |-> q[1], d |-> q[2]]
NegQ(q) == <<-q[1], q[2]>>
RECURSIVE AllPaths(_)
AllPaths(t) == IF IsLeafK(t.k) THEN {<<>>}
               ELSE IF IsUn(t.k) THEN {<<>>} \cup {<<"R">> \o q : q \in AllPaths(t.c)}
               ELSE {<<>>} \cup {<<"L">> \o q : q \in AllPaths(t.l)} \cup {<<"R">> \o q : q \in AllPaths(t.r)}
RECURSIVE ContainsKind(_,_)
ContainsKind(t, k) == t.k = k \/ (IF IsLeafK(t.k) THEN FALSE ELSE IF IsUn(t.k) THEN ContainsKind(t.c, k) ELSE ContainsKind(t.l, k) \/ ContainsKind(t.r, k))
RECURSIVE AllConstsHaveValues(_)
AllConstsHaveValues(t) == IF t.k = "c" THEN HasVal(t) ELSE IF t.k = "v" THEN TRUE ELSE IF IsUn(t.k) THEN AllConstsHaveValues(t.c)
                          ELSE AllConstsHaveValues(t.l) /\ AllConstsHaveValues(t.r)

RECURSIVE NormC(_)      \* constants by value
NormC(t) == CASE t.k = "c" -> [k |-> "c", v |-> ConstM(t, P)] [] t.k = "v" -> t
              [] IsUn(t.k) -> [k |-> t.k, c |-> NormC(t.c)] [] OTHER -> [k |-> t.k, l |-> NormC(t.l), r |-> NormC(t.r)]

(* ---------------- util.get_term_ex ---------------- *)
NoneQ == <<"none">>
NoTerm == [ok |-> FALSE]
TE(c, v, e) == [ok |-> TRUE, c |-> c, v |-> v, e |-> e]        \* c, e: NoneQ or a rational; v: 0 = no variable
TermEx(n, pk) ==
  IF n.k = "neg" /\ n.c.k = "v" THEN TE(<<-1, 1>>, n.c.id, NoneQ)
  ELSE IF n.k = "neg" /\ n.c.k = "pow" /\ n.c.l.k = "v" /\ n.c.r.k = "c" THEN TE(<<-1, 1>>, n.c.l.id, ValQ(n.c.r))
  ELSE IF n.k = "c" /\ pk # "pow" THEN TE(ValQ(n), 0, NoneQ)
  ELSE IF n.k = "v" /\ pk # "pow" THEN TE(NoneQ, n.id, NoneQ)
  ELSE IF n.k = "mul" /\ n.l.k = "c" /\ n.r.k = "v" THEN TE(ValQ(n.l), n.r.id, NoneQ)
  ELSE IF n.k = "mul" /\ n.l.k = "c" /\ n.r.k = "pow" /\ n.r.l.k = "v" /\ n.r.r.k = "c" THEN TE(ValQ(n.l), n.r.l.id, ValQ(n.r.r))
  ELSE IF n.k = "pow" /\ n.l.k = "v" /\ n.r.k = "c" THEN TE(NoneQ, n.l.id, ValQ(n.r))
  ELSE NoTerm
\* util.make_term(coefficient, variable, exponent)
MakeTerm(c, v, e) ==
  IF v = 0 /\ e = NoneQ THEN CQ(c)
  ELSE IF c = <<1, 1>> /\ e = NoneQ THEN [k |-> "v", id |-> v]
  ELSE IF e = NoneQ THEN B("mul", CQ(c), [k |-> "v", id |-> v])
  ELSE IF c = <<1, 1>> THEN B("pow", [k |-> "v", id |-> v], CQ(e))
  ELSE B("mul", CQ(c), B("pow", [k |-> "v", id |-> v], CQ(e)))

(* ---------------- associative ---------------- *)
CanAssoc(t, p) == LET n == TermAt(t, p) IN n.k \in {"add", "mul"} /\ Len(p) > 0 /\ ParentKind(t, p) = n.k
OutAssoc(t, p) ==
  LET par == TermAt(t, ParentPath(p))  n == TermAt(t, p) IN
  ReplaceAt(t, ParentPath(p), IF SideOf(p) = "L" THEN B(n.k, n.l, B(n.k, n.r, par.r)) ELSE B(n.k, B(n.k, par.l, n.l), n.r))

(* ---------------- commutative (preferred on / off) ---------------- *)
CanComm(t, p, opt) ==
  LET n == TermAt(t, p)
      underMulWithMulSibling == ParentKind(t, p) = "mul" /\ SiblingOf(t, p).k = "mul" IN
  IF n.k \in {"add", "eq"} THEN TRUE
  ELSE IF n.k # "mul" THEN FALSE
  ELSE IF opt = "pref" THEN TRUE
  ELSE IF n.l.k = "c" /\ n.r.k = "v" THEN underMulWithMulSibling
  ELSE IF n.r.k = "pow" /\ n.r.l.k = "v" /\ n.r.r.k = "c" THEN underMulWithMulSibling
  ELSE TRUE
OutComm(t, p) ==
  LET n == TermAt(t, p)
      chain == n.k \in {"add", "mul"} /\ n.l.k = n.k IN
  ReplaceAt(t, p, IF n.k = "eq" \/ ~chain THEN B(n.k, n.r, n.l) ELSE B(n.k, B(n.k, n.l.l, n.r), n.l.r))

(* ---------------- constant arithmetic ---------------- *)
OpQ(k, a, b) == CASE k = "add" -> AddQ(a, b) [] k = "sub" -> SubQ(a, b) [] k = "mul" -> MulQ(a, b) [] k = "div" -> DivQ(a, b) [] k = "pow" -> PowQ(a, b) [] OTHER -> UndefQ
ArithK == {"add", "sub", "mul", "div", "pow"}
BothC(n) == IsBin(n.k) /\ n.l.k = "c" /\ n.r.k = "c"
\* the arrangement the code finds first: <<name, c1, c2>> or <<"none">>
FoldType(n) ==
  IF n.k = "neg" /\ BothC(n.c) THEN <<"negation_simple", n.c.l, n.c.r>>
  ELSE IF BothC(n) /\ n.k # "eq" THEN <<"simple", n.l, n.r>>
  ELSE IF n.k = "mul" /\ n.l.k = "mul" /\ n.l.l.k = "c" /\ n.l.r.k = "v" /\ n.r.k = "c" THEN <<"simple_var_mult", n.l.l, n.r>>
  ELSE IF IsBin(n.k) /\ n.l.k = "c" /\ IsBin(n.r.k) /\ IsBin(n.r.l.k) /\ n.r.l.l.k = "c"
          /\ ((n.k = "add" /\ n.r.k = "add" /\ n.r.l.k = "add") \/ (n.k = "mul" /\ n.r.k = "mul" /\ n.r.l.k = "mul"))
       THEN <<"chained_right_deep", n.l, n.r.l.l>>
  ELSE IF IsBin(n.k) /\ n.l.k = "c" /\ IsBin(n.r.k) /\ n.r.l.k = "c" /\ ((n.k = "add" /\ n.r.k = "add") \/ (n.k = "mul" /\ n.r.k = "mul"))
       THEN <<"chained_right", n.l, n.r.l>>
  ELSE IF n.k = "mul" /\ n.l.k = "mul" /\ n.l.l.k = "c" /\ n.r.k = "mul" /\ n.r.l.k = "c" THEN <<"chained_right_left", n.l.l, n.r.l>>
  ELSE IF n.k = "mul" /\ n.l.k = "mul" /\ n.l.l.k = "c" /\ n.r.k = "mul" /\ n.r.l.k = "mul" /\ n.r.l.l.k = "c" THEN <<"chained_right_left_left", n.l.l, n.r.l.l>>
  ELSE IF n.k = "mul" /\ n.l.k = "mul" /\ n.l.r.k = "mul" /\ n.l.r.l.k = "c" /\ n.r.k = "mul" /\ n.r.l.k = "c" THEN <<"chained_left_left_right", n.l.r.l, n.r.l>>
  ELSE <<"none">>
CanFold(t, p) == FoldType(TermAt(t, p))[1] # "none"
\* the folded constant has a value the model can compute (division by zero, huge powers, odd constants: unmodelled)
FoldModelled(t, p) == LET n == TermAt(t, p)  ft == FoldType(n) IN
  ft[1] # "none" /\ HasVal(ft[2]) /\ HasVal(ft[3]) /\
  (LET k == IF ft[1] = "negation_simple" THEN n.c.k ELSE IF ft[1] = "simple" THEN n.k ELSE IF n.k = "add" THEN "add" ELSE "mul" IN
   k \in ArithK /\ OpQ(k, ValQ(ft[2]), ValQ(ft[3])) # UndefQ)
OutFold(t, p) ==
  LET n == TermAt(t, p)  ft == FoldType(n)  a == ValQ(ft[2])  b == ValQ(ft[3])
      prod == CQ(MulQ(a, b)) IN
  ReplaceAt(t, p,
    CASE ft[1] = "negation_simple" -> CQ(NegQ(OpQ(n.c.k, a, b)))
      [] ft[1] = "simple" -> CQ(OpQ(n.k, a, b))
      [] ft[1] = "simple_var_mult" -> B("mul", prod, n.l.r)
      [] ft[1] = "chained_right_deep" -> B(n.k, B(n.k, CQ(OpQ(n.k, a, b)), n.r.l.r), n.r.r)
      [] ft[1] = "chained_right" -> B(n.k, CQ(OpQ(n.k, a, b)), n.r.r)
      [] ft[1] = "chained_right_left" -> B("mul", B("mul", prod, n.l.r), n.r.r)
      [] ft[1] = "chained_right_left_left" -> B("mul", B("mul", prod, n.l.r), B("mul", n.r.l.r, n.r.r))
      [] ft[1] = "chained_left_left_right" -> B("mul", n.l.l, B("mul", B("mul", prod, n.l.r.r), n.r.r)))

\* the exact value of the constant a fold creates, for constants of any magnitude (big rationals); BadQ when not computable
FoldExact(t, p) ==
  LET n == TermAt(t, p)  ft == FoldType(n) IN
  IF ft[1] = "none" THEN BadQ ELSE
  LET k == IF ft[1] = "negation_simple" THEN n.c.k ELSE IF ft[1] = "simple" THEN n.k ELSE IF n.k = "add" THEN "add" ELSE "mul"
      v == OpBQ(k, ConstBQ(ft[2]), ConstBQ(ft[3])) IN
  IF ~v.ok THEN BadQ ELSE IF ft[1] = "negation_simple" THEN BQ(BNeg(v.n), v.d) ELSE v

(* ---------------- distribute ---------------- *)
CanDist(t, p) == LET n == TermAt(t, p) IN n.k = "mul" /\ (n.l.k = "add" \/ n.r.k = "add")
OutDist(t, p) ==
  LET n == TermAt(t, p)
      leftAdd == n.l.k = "add"
      a == IF leftAdd THEN n.r ELSE n.l
      b == IF leftAdd THEN n.l.l ELSE n.r.l
      c == IF leftAdd THEN n.l.r ELSE n.r.r
      aLeftVar == IsBin(a.k) /\ a.l.k = "v"                    \* isinstance(a.left, VariableExpression)
      aVar == (a.k = "pow" /\ a.r.k = "v") \/ aLeftVar \/ a.k = "v"
      ab == IF aVar /\ b.k = "c" THEN B("mul", b, a) ELSE B("mul", a, b)
      ac == IF aVar /\ c.k = "c" THEN B("mul", c, a) ELSE B("mul", a, c)
  IN ReplaceAt(t, p, B("add", ab, ac))

(* ---------------- multiplicative inverse ---------------- *)
CanInverse(t, p) == TermAt(t, p).k = "div"
OutInverse(t, p) == LET n == TermAt(t, p) IN
  ReplaceAt(t, p, IF n.r.k = "neg" THEN B("mul", n.l, B("div", CQ(<<-1, 1>>), n.r.c)) ELSE B("mul", n.l, B("div", CQ(<<1, 1>>), n.r)))

(* ---------------- restate subtraction ---------------- *)
NegC(c) == IF HasVal(c) THEN ValQ(c)[1] < 0 ELSE IF HasDigits(c) THEN c.sg < 0 ELSE FALSE
FlipC(c) == IF HasDigits(c) THEN [c EXCEPT !.sg = -c.sg] ELSE [c EXCEPT !.n = -c.n]
RestateType(t, p) ==
  LET n == TermAt(t, p)  pk == ParentKind(t, p) IN
  IF n.k = "sub" /\ pk \in {"none", "eq", "add"} THEN
       (IF n.r.k = "neg" /\ n.r.c.k = "v" THEN "subtract_negative_variable"
        ELSE IF n.r.k = "c" /\ NegC(n.r) THEN "subtract_negative_constant"
        ELSE IF n.r.k = "mul" /\ n.r.l.k = "c" THEN "subtract_term_with_constant"
        ELSE "subtraction")
  ELSE IF n.k # "add" THEN "none"
  ELSE IF n.r.k = "c" THEN (IF NegC(n.r) THEN "add_neg_const" ELSE "none")
  ELSE IF n.r.k = "mul" /\ n.r.l.k = "c" /\ n.r.r.k = "v" THEN (IF NegC(n.r.l) THEN "add_neg_const_var" ELSE "none")
  ELSE IF n.r.k = "mul" /\ n.r.l.k = "c" /\ n.r.r.k = "pow" THEN (IF NegC(n.r.l) THEN "add_neg_const_var_exp" ELSE "none")
  ELSE "none"
CanRestate(t, p) == RestateType(t, p) # "none"
OutRestate(t, p) ==
  LET n == TermAt(t, p)  ty == RestateType(t, p) IN
  ReplaceAt(t, p,
    CASE ty = "subtract_negative_variable" -> B("add", n.l, n.r.c)
      [] ty = "subtract_negative_constant" -> B("add", n.l, FlipC(n.r))
      [] ty = "subtract_term_with_constant" -> B("add", n.l, [n.r EXCEPT !.l = FlipC(n.r.l)])
      [] ty = "subtraction" -> B("add", n.l, U("neg", n.r))
      [] ty = "add_neg_const" -> B("sub", n.l, FlipC(n.r))
      [] OTHER -> B("sub", n.l, [n.r EXCEPT !.l = FlipC(n.r.l)]))

(* ---------------- variable multiply ---------------- *)
VarMulType(n) ==   \* <<position, left term, right term>> or <<"none">>
  IF n.k # "mul" THEN <<"none">> ELSE
  LET lt == TermEx(n.l, "mul")  rt == TermEx(n.r, "mul")
      clt == IF n.l.k = "mul" /\ n.r.k = "mul" THEN TermEx(n.l.r, "mul") ELSE NoTerm IN
  IF n.l.k = "mul" /\ n.r.k = "mul" /\ clt.ok /\ rt.ok /\ clt.v = rt.v THEN <<"chained_left_right", clt, rt>>
  ELSE IF ~lt.ok \/ lt.v = 0 THEN <<"none">>
  ELSE LET chained == ~rt.ok /\ n.r.k = "mul"
           rt2 == IF chained THEN TermEx(n.r.l, "mul") ELSE rt IN
       IF ~rt2.ok \/ rt2.v = 0 \/ lt.v # rt2.v THEN <<"none">>
       ELSE <<IF chained THEN "chained" ELSE "simple", lt, rt2>>
CanVarMul(t, p) == VarMulType(TermAt(t, p))[1] # "none"
VarMulModelled(t, p) == LET ty == VarMulType(TermAt(t, p)) IN ty[1] # "none" /\ ty[2].v # 0
                        /\ (ty[2].c = NoneQ \/ ty[2].c # UndefQ) /\ (ty[3].c = NoneQ \/ ty[3].c # UndefQ)
                        /\ (ty[2].e = NoneQ \/ ty[2].e # UndefQ) /\ (ty[3].e = NoneQ \/ ty[3].e # UndefQ)
OutVarMul(t, p) ==
  LET n == TermAt(t, p)  ty == VarMulType(n)  lt == ty[2]  rt == ty[3]
      le == IF lt.e = NoneQ THEN <<1, 1>> ELSE lt.e
      re == IF rt.e = NoneQ THEN <<1, 1>> ELSE rt.e
      power == B("pow", [k |-> "v", id |-> lt.v], B("add", CQ(le), CQ(re)))
      hasL == lt.c # NoneQ   hasR == rt.c # NoneQ
      one == IF hasL THEN CQ(lt.c) ELSE CQ(rt.c)
  IN ReplaceAt(t, p,
    CASE ty[1] = "chained" ->
           (LET base == B("mul", power, n.r.r) IN
            IF hasL /\ hasR THEN B("mul", CQ(lt.c), B("mul", CQ(rt.c), base)) ELSE IF hasL \/ hasR THEN B("mul", one, base) ELSE base)
      [] ty[1] = "chained_left_right" ->
           B("mul", n.l.l, IF hasL /\ hasR THEN B("mul", CQ(rt.c), B("mul", CQ(lt.c), power)) ELSE IF hasL \/ hasR THEN B("mul", one, power) ELSE power)
      [] OTHER -> IF hasL /\ hasR THEN B("mul", B("mul", CQ(lt.c), CQ(rt.c)), power) ELSE IF hasL \/ hasR THEN B("mul", one, power) ELSE power)

(* ---------------- balanced move ---------------- *)
RECURSIVE OnlyAddsBetween(_,_,_)     \* every node strictly between the root and the node (exclusive) is an addition
OnlyAddsBetween(t, p, k) == IF k >= Len(p) THEN TRUE ELSE TermAt(t, SubSeq(p, 1, k)).k = "add" /\ OnlyAddsBetween(t, p, k + 1)
MoveType(t, p) ==
  LET n == TermAt(t, p)  pk == ParentKind(t, p) IN
  IF t.k # "eq" \/ Len(p) = 0 \/ pk = "eq" THEN "none"
  ELSE IF t.l.k = "eq" \/ t.r.k = "eq" THEN "none"            \* chained equations are refused
  ELSE IF pk = "mul" /\ n.k = "c" /\ ~(HasVal(n) /\ ValQ(n)[1] = 0)
       THEN (IF ContainsKind(IF p[1] = "L" THEN t.l ELSE t.r, "add") THEN "none" ELSE "const_of_multiply")
  ELSE IF pk = "add" THEN
       (IF ~OnlyAddsBetween(t, p, 1) THEN "none"
        ELSE IF n.k = "c" \/ TermEx(n, "add").ok THEN "addition" ELSE "none")
  ELSE "none"
CanMove(t, p) == MoveType(t, p) # "none"
OutMove(t, p) ==
  LET n == TermAt(t, p)  ty == MoveType(t, p) IN
  IF ty = "const_of_multiply" THEN B("eq", B("div", t.l, n), B("div", t.r, n))
  ELSE LET without == ReplaceAt(t, ParentPath(p), SiblingOf(t, p)) IN
       IF p[1] = "L" THEN B("eq", without.l, B("sub", without.r, n)) ELSE B("eq", B("sub", without.l, n), without.r)

(* ---------------- distributive factor out ---------------- *)
IsIntQ(q) == q # UndefQ /\ q # NoneQ /\ q[2] = 1
CoefOr1(te) == IF te.c = NoneQ THEN <<1, 1>> ELSE te.c
\* util.factor(value): the keys of the table (value an integer): all divisors of a positive value, {1} for a negative one, {} for 0
FactorKeys(v) == IF v > 0 THEN {d \in 1..v : v % d = 0} ELSE IF v < 0 THEN {1} ELSE {}
FactorType(n) ==    \* <<position, left term, right term>> or <<"none">>  (get_type of DistributiveFactorOutRule)
  IF n.k # "add" THEN <<"none">> ELSE
  LET lt == TermEx(n.l, "add")  rt == TermEx(n.r, "add") IN
  IF ~lt.ok /\ ~rt.ok THEN
       (LET rt2 == IF n.r.k = "add" THEN TermEx(n.r.l, "add") ELSE NoTerm
            lt2 == IF n.l.k = "add" THEN TermEx(n.l.r, "add") ELSE NoTerm IN
        IF ~rt2.ok \/ rt2.v = 0 \/ ~lt2.ok \/ lt2.v = 0 THEN <<"none">> ELSE <<"chained_both", lt2, rt2>>)
  ELSE IF lt.ok /\ rt.ok THEN <<"simple", lt, rt>>
  ELSE IF lt.ok THEN
       (LET rt2 == IF n.r.k = "add" THEN TermEx(n.r.l, "add") ELSE NoTerm IN
        IF rt2.ok THEN (IF rt2.v = 0 THEN <<"none">> ELSE <<"chained_right", lt, rt2>>)
        ELSE LET rt3 == IF n.r.k = "add" /\ n.r.l.k = "add" THEN TermEx(n.r.l.l, "add") ELSE NoTerm IN
             IF ~rt3.ok \/ rt3.v = 0 THEN <<"none">> ELSE <<"chained_right_left", lt, rt3>>)
  ELSE (LET lt2 == IF n.l.k = "add" THEN TermEx(n.l.r, "add") ELSE NoTerm IN
        IF lt2.ok THEN (IF lt2.v = 0 THEN <<"none">> ELSE <<"chained_left", lt2, rt>>)
        ELSE LET lt3 == IF n.l.k = "add" /\ n.l.r.k = "add" THEN TermEx(n.l.r.r, "add") ELSE NoTerm IN
             IF ~lt3.ok \/ lt3.v = 0 THEN <<"none">> ELSE <<"chained_left_right", lt3, rt>>)
\* util.factor_add_terms_ex for integer coefficients
FactorModelled(n) == LET ty == FactorType(n) IN ty[1] # "none" /\ IsIntQ(CoefOr1(ty[2])) /\ IsIntQ(CoefOr1(ty[3]))
                                                /\ (ty[2].e = NoneQ \/ ty[2].e # UndefQ) /\ (ty[3].e = NoneQ \/ ty[3].e # UndefQ)
                                                /\ AbsI(CoefOr1(ty[2])[1]) <= 400 /\ AbsI(CoefOr1(ty[3])[1]) <= 400
MaxSet(S) == CHOOSE x \in S : \A y \in S : x >= y
MinSet(S) == CHOOSE x \in S : \A y \in S : x <= y
FactorResult(lt, rt) ==
  LET lc == CoefOr1(lt)[1]  rc == CoefOr1(rt)[1]
      common == FactorKeys(lc) \cap FactorKeys(rc) IN
  IF common = {} THEN [ok |-> FALSE] ELSE
  LET best == IF lt.v # 0 \/ rt.v # 0 THEN MinSet(common) ELSE MaxSet(common)
      twoExpMatch == lt.e # NoneQ /\ rt.e # NoneQ /\ lt.e = rt.e
      bothMatch == ~((lt.e # NoneQ \/ rt.e # NoneQ) /\ ~twoExpMatch)
      shared == lt.v # 0 /\ rt.v # 0 /\ lt.v = rt.v /\ bothMatch
      var == IF shared THEN lt.v ELSE 0
      ex == IF shared THEN lt.e ELSE NoneQ
  IN [ok |-> TRUE, best |-> best, left |-> lc \div best, right |-> rc \div best, var |-> var, ex |-> ex,
      lex |-> IF lt.e # NoneQ /\ lt.e # ex THEN lt.e ELSE NoneQ, rex |-> IF rt.e # NoneQ /\ rt.e # ex THEN rt.e ELSE NoneQ,
      lvar |-> IF lt.v # 0 /\ lt.v # var THEN lt.v ELSE 0, rvar |-> IF rt.v # 0 /\ rt.v # var THEN rt.v ELSE 0]
Truthy(e) == e # NoneQ /\ e[1] # 0       \* Python truthiness of an exponent value
CanFactor(t, p, opt) ==
  LET n == TermAt(t, p)  ty == FactorType(n) IN
  IF ty[1] = "none" THEN FALSE
  ELSE IF opt # "consts" /\ ty[2].v = 0 /\ ty[3].v = 0 THEN FALSE
  ELSE LET f == FactorResult(ty[2], ty[3]) IN
       f.ok /\ ~(f.best = 1 /\ f.var = 0 /\ ~Truthy(f.ex))
OutFactor(t, p) ==
  LET n == TermAt(t, p)  ty == FactorType(n)  f == FactorResult(ty[2], ty[3])
      a == MakeTerm(<<f.best, 1>>, f.var, f.ex)
      b == MakeTerm(<<f.left, 1>>, f.lvar, f.lex)
      c == MakeTerm(<<f.right, 1>>, f.rvar, f.rex)
      core == B("mul", B("add", b, c), a)
      r1 == IF ty[1] \in {"chained_left", "chained_both"} THEN B("add", n.l.l, core) ELSE core
      r2 == IF ty[1] = "chained_left_right" THEN B("add", B("add", n.l.l, n.l.r.l), r1) ELSE r1
      r3 == IF ty[1] = "chained_right_left" THEN B("add", r2, B("add", n.r.l.r, n.r.r)) ELSE r2
      r4 == IF ty[1] \in {"chained_right", "chained_both"} THEN B("add", r3, n.r.r) ELSE r3
  IN ReplaceAt(t, p, r4)

(* ---------------- dispatch ---------------- *)
RuleInstances == {<<"assoc", "">>, <<"comm", "pref">>, <<"comm", "nopref">>, <<"fold", "">>, <<"factor", "">>, <<"factor", "consts">>,
                  <<"dist", "">>, <<"inverse", "">>, <<"restate", "">>, <<"varmul", "">>, <<"move", "">>}
\* "yes" / "no" / "unmodelled"
ImplCan(r, o, t, p) ==
  LET n == TermAt(t, p) IN
  CASE r = "assoc" -> IF CanAssoc(t, p) THEN "yes" ELSE "no"
    [] r = "comm" -> IF CanComm(t, p, o) THEN "yes" ELSE "no"
    [] r = "fold" -> IF ~CanFold(t, p) THEN "no" ELSE IF FoldModelled(t, p) THEN "yes" ELSE "unmodelled"
    [] r = "dist" -> IF CanDist(t, p) THEN "yes" ELSE "no"
    [] r = "inverse" -> IF CanInverse(t, p) THEN "yes" ELSE "no"
    [] r = "restate" -> IF CanRestate(t, p) THEN "yes" ELSE "no"
    [] r = "varmul" -> IF ~CanVarMul(t, p) THEN "no" ELSE IF VarMulModelled(t, p) THEN "yes" ELSE "unmodelled"
    [] r = "move" -> IF CanMove(t, p) THEN "yes" ELSE "no"
    [] r = "factor" -> IF FactorType(n)[1] = "none" THEN "no" ELSE IF ~FactorModelled(n) THEN "unmodelled" ELSE IF CanFactor(t, p, o) THEN "yes" ELSE "no"
    [] OTHER -> "unmodelled"
ImplOut(r, o, t, p) ==
  CASE r = "assoc" -> OutAssoc(t, p) [] r = "comm" -> OutComm(t, p) [] r = "fold" -> OutFold(t, p) [] r = "dist" -> OutDist(t, p)
    [] r = "inverse" -> OutInverse(t, p) [] r = "restate" -> OutRestate(t, p) [] r = "varmul" -> OutVarMul(t, p)
    [] r = "move" -> OutMove(t, p) [] r = "factor" -> OutFactor(t, p)
\* which branch of the rule's classifier / builder a step goes through (for branch-coverage accounting of the traces)
BranchOf(r, o, t, p) ==
  LET n == TermAt(t, p) IN
  CASE r = "assoc" -> (IF SideOf(p) = "L" THEN "assoc.left_child_up" ELSE "assoc.right_child_up")
    [] r = "comm" -> (IF n.k = "eq" THEN "comm.equation" ELSE IF n.k \in {"add", "mul"} /\ n.l.k = n.k THEN "comm.chain_" \o n.k ELSE "comm.swap_" \o n.k)
    [] r = "fold" -> "fold." \o FoldType(n)[1]
    [] r = "dist" -> (IF n.l.k = "add" THEN "dist.sum_on_left" ELSE "dist.sum_on_right")
    [] r = "inverse" -> (IF n.r.k = "neg" THEN "inverse.negative_denominator" ELSE "inverse.plain")
    [] r = "restate" -> "restate." \o RestateType(t, p)
    [] r = "varmul" -> "varmul." \o VarMulType(n)[1]
    [] r = "move" -> "move." \o MoveType(t, p)
    [] r = "factor" -> "factor." \o FactorType(n)[1]
    [] OTHER -> "other"
AllBranches == {"assoc.left_child_up", "assoc.right_child_up", "comm.equation", "comm.chain_add", "comm.chain_mul", "comm.swap_add", "comm.swap_mul",
  "fold.negation_simple", "fold.simple", "fold.simple_var_mult", "fold.chained_right_deep", "fold.chained_right", "fold.chained_right_left",
  "fold.chained_right_left_left", "fold.chained_left_left_right", "dist.sum_on_left", "dist.sum_on_right", "inverse.negative_denominator", "inverse.plain",
  "restate.subtract_negative_variable", "restate.subtract_negative_constant", "restate.subtract_term_with_constant", "restate.subtraction",
  "restate.add_neg_const", "restate.add_neg_const_var", "restate.add_neg_const_var_exp", "varmul.simple", "varmul.chained", "varmul.chained_left_right",
  "move.const_of_multiply", "move.addition", "factor.simple", "factor.chained_both", "factor.chained_right", "factor.chained_right_left",
  "factor.chained_left", "factor.chained_left_right"}

\* the relational contract on a model step (C01 / C02 / C07's variables) - what TLC checks over the model alone
ImplStepAllowed(r, o, t, p) ==
  LET out == ImplOut(r, o, t, p)
      global == r = "move" \/ (r = "comm" /\ TermAt(t, p).k = "eq") IN
  /\ Vars(out) = Vars(t)
  /\ (IF t.k = "eq" THEN out.k = "eq" /\ SameSolutions(t, out) ELSE Equiv(t, out))
=============================================================================
