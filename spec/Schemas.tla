------------------------------- MODULE Schemas -------------------------------
(***************************************************************************)
(* The documented transformation of each rewrite rule (C08), as schemas     *)
(* instantiated independently of the code: for every instance the input      *)
(* tree, the node, whether the rule must accept or refuse, and the           *)
(* documented result (compared up to the order and grouping of the operands  *)
(* of + and * and up to which common numeric factor is pulled out).          *)
(* Written from rules/*.md, the rule docstrings and property C08.            *)
(***************************************************************************)
EXTENDS Expr, Bags, TLC

C(n) == [k |-> "c", n |-> n, d |-> 1]
Q(n, d) == [k |-> "c", n |-> n, d |-> d]
V(id) == [k |-> "v", id |-> id]
Bin(k, l, r) == [k |-> k, l |-> l, r |-> r]
Un(k, c) == [k |-> k, c |-> c]
X == V(120)  Y == V(121)  Z == V(122)

(* ---- contexts: a hole filled with a term; Path = path of the hole ---- *)
CtxNames == {"top", "addL", "addR", "subL", "subR", "mulL", "mulR", "divR", "powL", "neg", "sgn", "eqL", "eqR"}
Fill(cx, h) ==
  CASE cx = "top" -> h
    [] cx = "addL" -> Bin("add", h, Z)      [] cx = "addR" -> Bin("add", Z, h)
    [] cx = "subL" -> Bin("sub", h, Y)      [] cx = "subR" -> Bin("sub", Y, h)
    [] cx = "mulL" -> Bin("mul", h, C(3))   [] cx = "mulR" -> Bin("mul", C(3), h)
    [] cx = "divR" -> Bin("div", C(2), h)   [] cx = "powL" -> Bin("pow", h, C(2))
    [] cx = "neg"  -> Un("neg", h)          [] cx = "sgn"  -> Un("sgn", h)
    [] cx = "eqL"  -> Bin("eq", h, C(4))    [] cx = "eqR"  -> Bin("eq", C(4), h)
HolePath(cx) == IF cx = "top" THEN <<>> ELSE IF cx \in {"addL", "subL", "mulL", "powL", "eqL"} THEN <<"L">> ELSE <<"R">>

(* ---- a schema instance ---- *)
\* mode: how the result at the node is compared with `want` (a sequence of acceptable documented results)
\*   "exact"    equal as trees (constants by value)
\*   "ac"       equal up to order and grouping of the operands of + and *
\*   "factored" a product of (p' + q') and k u^n with k p' = p, k q' = q, plus the kept addends in `want`
Case(sid, rule, opt, cx, node, sub, expect, mode, want, fp) ==
  [sid |-> sid, rule |-> rule, opt |-> opt, inp |-> Fill(cx, node), path |-> HolePath(cx) \o sub, expect |-> expect, mode |-> mode,
   want |-> [i \in 1..Len(want) |-> Fill(cx, want[i])], hole |-> HolePath(cx), fp |-> fp]
NoFP == [p |-> <<0, 1>>, q |-> <<0, 1>>, u |-> 0, e |-> <<0, 0>>, keep |-> <<>>]

(* ---- parameter sets ---- *)
Operands == {C(2), C(-3), Q(1, 2), X, Y, Bin("mul", C(2), X), Bin("pow", X, C(2)), Un("neg", X)}
Consts == {C(2), C(-3), Q(1, 2), C(12), C(0), C(1)}
Coefs == {<<1, 0>>, <<2, 1>>, <<-3, 1>>, <<1, 2>>, <<12, 1>>}        \* <<1,0>> = absent coefficient
Exps == {<<0, 0>>, <<2, 1>>, <<3, 1>>, <<-1, 1>>, <<1, 2>>, <<0, 1>>}   \* <<0,0>> = absent exponent; <<0,1>> = the explicit exponent 0
\* the natural-order term p u^e
TermOfTriple(p, u, e) ==
  LET v == V(u)
      pw == IF e = <<0, 0>> THEN v ELSE Bin("pow", v, Q(e[1], e[2]))
  IN IF p = <<1, 0>> THEN pw ELSE Bin("mul", Q(p[1], p[2]), pw)
CoefQ(p) == IF p = <<1, 0>> THEN <<1, 1>> ELSE p
ExpQ(e) == IF e = <<0, 0>> THEN <<1, 1>> ELSE e
DownCtx == CtxNames
NotAdd(t) == t.k # "add"
NotMul(t) == t.k # "mul"

(* ================= the schemas ================= *)
Commutative ==
  \* a + b -> b + a ; a * b -> b * a ; chain (a + b) + c at the outer node -> (a + c) + b ; l = r -> r = l
  {Case("comm.add", "comm", o, cx, Bin("add", a, b), <<>>, "apply", "exact", <<Bin("add", b, a)>>, NoFP)
      : o \in {"pref", "nopref"}, cx \in DownCtx, a \in {t \in Operands : NotAdd(t)}, b \in Operands}
  \cup {Case("comm.mul", "comm", "pref", cx, Bin("mul", a, b), <<>>, "apply", "exact", <<Bin("mul", b, a)>>, NoFP)
      : cx \in DownCtx, a \in {t \in Operands : NotMul(t)}, b \in Operands}
  \cup {Case("comm.addchain", "comm", "pref", cx, Bin("add", Bin("add", a, b), c), <<>>, "apply", "ac", <<Bin("add", Bin("add", a, c), b)>>, NoFP)
      : cx \in {"top", "eqL", "subR"}, a \in {X, C(2)}, b \in {Y, Bin("mul", C(2), X)}, c \in {C(-3), Bin("pow", X, C(2))}}
  \cup {Case("comm.mulchain", "comm", "pref", cx, Bin("mul", Bin("mul", a, b), c), <<>>, "apply", "ac", <<Bin("mul", Bin("mul", a, c), b)>>, NoFP)
      : cx \in {"top", "addR"}, a \in {X, C(2)}, b \in {Y, Bin("pow", X, C(2))}, c \in {C(-3), Z}}
  \cup {Case("comm.eq", "comm", "pref", "top", Bin("eq", a, b), <<>>, "apply", "exact", <<Bin("eq", b, a)>>, NoFP)
      : a \in Operands, b \in {C(4), Bin("add", X, C(1))}}
  \* documented non-applicability: a difference, a quotient or a power is not swapped
  \cup {Case("comm.not", "comm", o, cx, Bin(k, a, b), <<>>, "refuse", "exact", <<>>, NoFP)
      : o \in {"pref", "nopref"}, cx \in {"top", "addL", "mulR"}, k \in {"sub", "div", "pow"}, a \in {X, C(2)}, b \in {Y, C(-3)}}
  \* preferred=False keeps 4x and 8y^4 in their preferred order
  \cup {Case("comm.preferred", "comm", "nopref", cx, t, <<>>, "refuse", "exact", <<>>, NoFP)
      : cx \in {"top", "addL", "addR", "eqL"}, t \in {Bin("mul", C(4), X), Bin("mul", C(8), Bin("pow", Y, C(4))), Bin("mul", Q(1, 2), Y)}}

Associative ==
  \* the inner node of (a op b) op c rotates up: a op (b op c), and back
  {Case("assoc.left", "assoc", "", cx, Bin(k, Bin(k, a, b), c), <<"L">>, "apply", "exact", <<Bin(k, a, Bin(k, b, c))>>, NoFP)
      : cx \in {"top", "eqR", "subL", "neg"}, k \in {"add", "mul"}, a \in {X, C(2)}, b \in {Y, C(-3), Bin("pow", X, C(2))}, c \in {Z, Q(1, 2)}}
  \cup {Case("assoc.right", "assoc", "", cx, Bin(k, a, Bin(k, b, c)), <<"R">>, "apply", "exact", <<Bin(k, Bin(k, a, b), c)>>, NoFP)
      : cx \in {"top", "eqR", "subL", "neg"}, k \in {"add", "mul"}, a \in {X, C(2)}, b \in {Y, C(-3), Bin("pow", X, C(2))}, c \in {Z, Q(1, 2)}}
  \* a node whose parent has a different operator, or none, is not regrouped
  \cup {Case("assoc.not", "assoc", "", "top", Bin(w[1], Bin(w[2], X, Y), Z), <<"L">>, "refuse", "exact", <<>>, NoFP)
      : w \in {w \in {"add", "mul", "sub"} \X {"add", "mul"} : w[1] # w[2]}}
  \cup {Case("assoc.root", "assoc", "", "top", Bin(k, X, Y), <<>>, "refuse", "exact", <<>>, NoFP) : k \in {"add", "mul"}}

\* exact value of c1 op c2 as a constant (small rationals)
QOf(c) == NormQ(c.n, c.d)
FoldQ(k, a, b) == CASE k = "add" -> AddQ(QOf(a), QOf(b)) [] k = "sub" -> SubQ(QOf(a), QOf(b)) [] k = "mul" -> MulQ(QOf(a), QOf(b)) [] OTHER -> DivQ(QOf(a), QOf(b))
QC(q) == Q(q[1], q[2])
ConstantArithmetic ==
  {Case("fold.simple", "fold", "", cx, Bin(w[1], a, w[2]), <<>>, "apply", "exact", <<QC(FoldQ(w[1], a, w[2]))>>, NoFP)
      : cx \in DownCtx, a \in Consts, w \in {w \in {"add", "sub", "mul", "div"} \X Consts : ~(w[1] = "div" /\ w[2].n = 0)}}
  \* -(c1 op c2)
  \cup {Case("fold.negated", "fold", "", cx, Un("neg", Bin(k, a, b)), <<>>, "apply", "exact", <<QC(SubQ(<<0, 1>>, FoldQ(k, a, b)))>>, NoFP)
      : cx \in {"top", "addR", "eqL"}, k \in {"add", "mul"}, a \in {C(2), C(-3)}, b \in {C(12), Q(1, 2)}}
  \* sibling skipping: the constants are connected through a multiplication chain
  \cup {Case("fold.skip", "fold", "", cx, Bin("mul", Bin("mul", a, v), b), <<>>, "apply", "ac", <<Bin("mul", QC(MulQ(QOf(a), QOf(b))), v)>>, NoFP)
      : cx \in {"top", "addL", "eqR"}, a \in {C(2), C(-3), Q(1, 2)}, b \in {C(8), C(-3)}, v \in {X, Y}}
  \cup {Case("fold.chain", "fold", "", cx, Bin("mul", a, Bin("mul", Bin("mul", b, v), t)), <<>>, "apply", "ac",
             <<Bin("mul", Bin("mul", QC(MulQ(QOf(a), QOf(b))), v), t)>>, NoFP)
      : cx \in {"top", "addL"}, a \in {C(5), C(-3)}, b \in {C(8), Q(1, 2)}, v \in {X}, t \in {Y, Bin("pow", Z, C(2))}}
  \cup {Case("fold.chain2", "fold", "", cx, Bin(k, a, Bin(k, b, t)), <<>>, "apply", "ac", <<Bin(k, QC(FoldQ(k, a, b)), t)>>, NoFP)
      : cx \in {"top", "eqL"}, k \in {"add", "mul"}, a \in {C(7), C(-3)}, b \in {C(10), Q(1, 2)}, t \in {X, Bin("mul", C(2), Y)}}
  \* the additive analogue of 5 * (8h * t): c1 + ((c2 + x) + y)
  \cup {Case("fold.chaindeep", "fold", "", cx, Bin(k, a, Bin(k, Bin(k, b, v), t)), <<>>, "apply", "ac", <<Bin(k, Bin(k, QC(FoldQ(k, a, b)), v), t)>>, NoFP)
      : cx \in {"top", "addL", "eqR"}, k \in {"add", "mul"}, a \in {C(5), C(-3)}, b \in {C(3), Q(1, 2)}, v \in {X}, t \in {Y, Bin("pow", Z, C(2))}}
  \* nothing to fold
  \cup {Case("fold.not", "fold", "", cx, t, <<>>, "refuse", "exact", <<>>, NoFP)
      : cx \in {"top", "addL", "eqR"}, t \in {Bin("add", C(2), Bin("mul", C(3), X)), Bin("sub", Bin("mul", C(3), X), C(2)), Bin("mul", C(2), Bin("pow", X, C(2))),
                                            Bin("sub", X, C(2)), Bin("add", X, Y), Bin("mul", X, Y),
                                            \* a chain whose inner group is of the other operator connects no two constants: 5 + (3x + y), 5 * ((3 + x) * y)
                                            Bin("add", C(5), Bin("add", Bin("mul", C(3), X), Y)), Bin("mul", C(5), Bin("mul", Bin("add", C(3), X), Y)),
                                            Bin("add", C(-3), Bin("add", Bin("mul", Q(1, 2), Bin("pow", X, C(2))), Z))}}

FactorOut ==
  \* p u^e + q u^e  ->  (p' + q') * k u^e
  {Case("factor.simple", "factor", o, cx, Bin("add", TermOfTriple(p, u, e), TermOfTriple(q, u, e)), <<>>, "apply", "factored", <<>>,
        [p |-> CoefQ(p), q |-> CoefQ(q), u |-> u, e |-> e, keep |-> <<>>])
      : o \in {"", "consts"}, cx \in DownCtx, p \in Coefs, q \in Coefs, u \in {120, 121}, e \in Exps}
  \* chained: (t + p u^e) + q u^e  and  p u^e + (q u^e + t): the other addend is kept
  \cup {Case("factor.chainleft", "factor", "", cx, Bin("add", Bin("add", t, TermOfTriple(p, 120, e)), TermOfTriple(q, 120, e)), <<>>, "apply", "factored", <<>>,
        [p |-> CoefQ(p), q |-> CoefQ(q), u |-> 120, e |-> e, keep |-> <<t>>])
      : cx \in {"top", "eqL", "subR"}, p \in {<<1, 0>>, <<2, 1>>}, q \in {<<-3, 1>>, <<12, 1>>}, e \in {<<0, 0>>, <<2, 1>>}, t \in {C(4), Y, Bin("mul", C(2), Y)}}
  \cup {Case("factor.chainright", "factor", "", cx, Bin("add", TermOfTriple(p, 120, e), Bin("add", TermOfTriple(q, 120, e), t)), <<>>, "apply", "factored", <<>>,
        [p |-> CoefQ(p), q |-> CoefQ(q), u |-> 120, e |-> e, keep |-> <<t>>])
      : cx \in {"top", "eqL", "subR"}, p \in {<<1, 0>>, <<2, 1>>}, q \in {<<-3, 1>>, <<12, 1>>}, e \in {<<0, 0>>, <<2, 1>>}, t \in {C(4), Y, Bin("mul", C(2), Y)}}
  \* constants only when enabled, and only with a common divisor
  \cup {Case("factor.consts", "factor", "consts", cx, Bin("add", C(w[1]), C(w[2])), <<>>, "apply", "factored", <<>>,
        [p |-> <<w[1], 1>>, q |-> <<w[2], 1>>, u |-> 0, e |-> <<0, 0>>, keep |-> <<>>])
      : cx \in {"top", "addL", "eqR"}, w \in {w \in {4, 12, 9} \X {6, 84, 3} : Gcd(w[1], w[2]) > 1}}
  \cup {Case("factor.consts.off", "factor", "", cx, Bin("add", C(a), C(b)), <<>>, "refuse", "exact", <<>>, NoFP)
      : cx \in {"top", "addL", "eqR"}, a \in {4, 12, 9}, b \in {6, 84, 3}}
  \* unlike variables are not factored
  \cup {Case("factor.unlike", "factor", o, cx, Bin("add", TermOfTriple(p, 120, e1), TermOfTriple(q, 121, e2)), <<>>, "refuse", "exact", <<>>, NoFP)
      : o \in {"", "consts"}, cx \in {"top", "addR", "eqL"}, p \in {<<1, 0>>, <<2, 1>>}, q \in {<<1, 0>>, <<-3, 1>>}, e1 \in {<<0, 0>>, <<2, 1>>}, e2 \in {<<0, 0>>, <<2, 1>>}}

Distribute ==
  {Case("dist.left", "dist", "", cx, Bin("mul", a, Bin("add", b, c)), <<>>, "apply", "ac", <<Bin("add", Bin("mul", a, b), Bin("mul", a, c))>>, NoFP)
      : cx \in DownCtx, a \in {C(2), X, Bin("mul", C(2), X), Bin("pow", X, C(2)), Q(1, 2)}, b \in {X, C(4), Bin("mul", C(2), Y)}, c \in {Y, C(-3)}}
  \cup {Case("dist.right", "dist", "", cx, Bin("mul", Bin("add", b, c), a), <<>>, "apply", "ac", <<Bin("add", Bin("mul", a, b), Bin("mul", a, c))>>, NoFP)
      : cx \in DownCtx, a \in {C(2), X, Bin("mul", C(2), X), Bin("pow", X, C(2)), Q(1, 2)}, b \in {X, C(4), Bin("mul", C(2), Y)}, c \in {Y, C(-3)}}
  \cup {Case("dist.not", "dist", "", cx, t, <<>>, "refuse", "exact", <<>>, NoFP)
      : cx \in {"top", "addL"}, t \in {Bin("mul", X, Y), Bin("mul", C(2), Bin("sub", X, Y)), Bin("add", X, Bin("mul", C(2), Y)), Bin("div", C(2), Bin("add", X, Y))}}

Inverse ==
  {Case("inverse.plain", "inverse", "", cx, Bin("div", a, b), <<>>, "apply", "exact", <<Bin("mul", a, Bin("div", C(1), b))>>, NoFP)
      : cx \in DownCtx, a \in Operands \cup {Bin("add", X, C(1))}, b \in {C(2), X, Bin("mul", C(2), X), Bin("add", X, C(1)), Bin("pow", X, C(2))}}
  \cup {Case("inverse.negdenominator", "inverse", "", cx, Bin("div", a, Un("neg", b)), <<>>, "apply", "exact", <<Bin("mul", a, Bin("div", C(-1), b))>>, NoFP)
      : cx \in DownCtx, a \in {C(2), X, Bin("add", C(2), Bin("mul", C(3), Z))}, b \in {Z, X, Bin("pow", X, C(2))}}
  \cup {Case("inverse.not", "inverse", "", cx, t, <<>>, "refuse", "exact", <<>>, NoFP)
      : cx \in {"top", "addL"}, t \in {Bin("mul", X, Y), Bin("sub", X, Y), Bin("pow", X, C(-1))}}

NegCoef(t) == \* t with its leading coefficient negated (t = c * rest)
  [t EXCEPT !.l = Q(-t.l.n, t.l.d)]
RestateCtx == {"top", "eqL", "eqR", "addL", "addR"}
Restate ==
  \* a - b -> a + -b   (b = c*rest may instead get its leading coefficient negated)
  {Case("restate.sub", "restate", "", cx, Bin("sub", a, b), <<>>, "apply", "exact",
        <<Bin("add", a, Un("neg", b))>> \o (IF b.k = "mul" /\ b.l.k = "c" THEN <<Bin("add", a, NegCoef(b))>> ELSE <<>>), NoFP)
      : cx \in RestateCtx, a \in {C(4), X, Bin("mul", C(2), X)}, b \in {X, Bin("mul", C(3), X), Bin("mul", C(2), Bin("pow", X, C(2))), Bin("pow", X, C(2)),
                                                                         Bin("add", C(2), X), Bin("pow", C(3), C(2)), Bin("div", C(2), X)}}
  \cup {Case("restate.subconst", "restate", "", cx, Bin("sub", a, Q(n, d)), <<>>, "apply", "exact", <<Bin("add", a, Un("neg", Q(n, d))), Bin("add", a, Q(-n, d))>>, NoFP)
      : cx \in RestateCtx, a \in {C(4), X}, n \in {1, 3}, d \in {1, 2}}
  \* a - -u -> a + u ; a - -c -> a + c
  \cup {Case("restate.subneg", "restate", "", cx, Bin("sub", a, Un("neg", u)), <<>>, "apply", "exact", <<Bin("add", a, u), Bin("add", a, Un("neg", Un("neg", u)))>>, NoFP)
      : cx \in RestateCtx, a \in {C(4), X}, u \in {X, Y}}
  \cup {Case("restate.subnegconst", "restate", "", cx, Bin("sub", a, Q(-n, d)), <<>>, "apply", "exact", <<Bin("add", a, Q(n, d)), Bin("add", a, Un("neg", Q(-n, d)))>>, NoFP)
      : cx \in RestateCtx, a \in {C(4), X}, n \in {1, 3}, d \in {1, 2}}
  \* and back: a + -c -> a - c ; a + -c u -> a - c u ; a + -c u^n -> a - c u^n
  \cup {Case("restate.back", "restate", "", cx, Bin("add", a, pair[1]), <<>>, "apply", "exact", <<Bin("sub", a, pair[2])>>, NoFP)
      : cx \in RestateCtx, a \in {C(4), X, Bin("mul", C(2), Y)},
        pair \in {<<Q(-3, 1), Q(3, 1)>>, <<Q(-1, 2), Q(1, 2)>>,
                  <<Bin("mul", C(-3), X), Bin("mul", C(3), X)>>, <<Bin("mul", Q(-1, 2), Y), Bin("mul", Q(1, 2), Y)>>,
                  <<Bin("mul", C(-2), Bin("pow", X, C(3))), Bin("mul", C(2), Bin("pow", X, C(3)))>>}}
  \cup {Case("restate.not", "restate", "", cx, t, <<>>, "refuse", "exact", <<>>, NoFP)
      : cx \in {"top", "eqL"}, t \in {Bin("add", X, C(3)), Bin("add", X, Bin("mul", C(3), X)), Bin("mul", X, C(-3)), Bin("div", X, C(-3))}}

SumExp(e1, e2) == Bin("add", Q(ExpQ(e1)[1], ExpQ(e1)[2]), Q(ExpQ(e2)[1], ExpQ(e2)[2]))
CoefProduct(p, q, rest) ==
  LET withq == IF q = <<1, 0>> THEN rest ELSE Bin("mul", Q(q[1], q[2]), rest)
  IN IF p = <<1, 0>> THEN withq ELSE Bin("mul", Q(p[1], p[2]), withq)
VariableMultiply ==
  \* p u^m * q u^n -> (p * q) * u^(m + n), absent exponent = 1, the sum left unevaluated
  {Case("varmul.simple", "varmul", "", cx, Bin("mul", TermOfTriple(p, u, m), TermOfTriple(q, u, n)), <<>>, "apply", "ac",
        <<CoefProduct(p, q, Bin("pow", V(u), SumExp(m, n)))>>, NoFP)
      : cx \in DownCtx, p \in {<<1, 0>>, <<2, 1>>, <<-3, 1>>, <<1, 2>>}, q \in {<<1, 0>>, <<4, 1>>, <<1, 2>>}, u \in {120, 121},
        m \in {<<0, 0>>, <<2, 1>>, <<-1, 1>>, <<0, 1>>}, n \in {<<0, 0>>, <<3, 1>>, <<1, 2>>, <<0, 1>>}}
  \cup {Case("varmul.chain", "varmul", "", cx, Bin("mul", TermOfTriple(p, 120, m), Bin("mul", TermOfTriple(q, 120, n), t)), <<>>, "apply", "ac",
        <<Bin("mul", CoefProduct(p, q, Bin("pow", X, SumExp(m, n))), t)>>, NoFP)
      : cx \in {"top", "addL", "eqR"}, p \in {<<1, 0>>, <<2, 1>>}, q \in {<<1, 0>>, <<4, 1>>}, m \in {<<0, 0>>, <<2, 1>>, <<0, 1>>}, n \in {<<0, 0>>, <<3, 1>>}, t \in {Y, C(5)}}
  \* unlike variables are not combined
  \cup {Case("varmul.not", "varmul", "", cx, t, <<>>, "refuse", "exact", <<>>, NoFP)
      : cx \in {"top", "addL", "eqR"}, t \in {Bin("mul", X, Y), Bin("mul", X, Bin("pow", Y, C(2))), Bin("mul", Bin("mul", C(2), X), Bin("mul", C(3), Bin("pow", Y, C(2)))),
                                            Bin("mul", C(2), X), Bin("add", X, X)}}

MoveSides == {C(3), Bin("mul", C(2), Y), Bin("add", Y, C(1))}
BalancedMove ==
  \* an addend reachable from the side's root through + only moves across: L \ t = R - t
  {Case("move.addend.l", "move", "", "top", Bin("eq", Bin("add", t, s), r), <<"L", "L">>, "apply", "exact", <<Bin("eq", s, Bin("sub", r, t))>>, NoFP)
      : t \in {C(7), X, Bin("mul", C(3), X), Bin("pow", X, C(2)), Un("neg", X)}, s \in {C(2), Bin("mul", C(4), Y)}, r \in MoveSides}
  \cup {Case("move.addend.r", "move", "", "top", Bin("eq", Bin("add", s, t), r), <<"L", "R">>, "apply", "exact", <<Bin("eq", s, Bin("sub", r, t))>>, NoFP)
      : t \in {C(7), X, Bin("mul", C(3), X), Bin("pow", X, C(2))}, s \in {C(2), Bin("mul", C(4), Y)}, r \in MoveSides}
  \cup {Case("move.addend.deep", "move", "", "top", Bin("eq", Bin("add", Bin("add", t, s), s2), r), <<"L", "L", "L">>, "apply", "exact",
             <<Bin("eq", Bin("add", s, s2), Bin("sub", r, t))>>, NoFP)
      : t \in {C(7), X, Bin("mul", C(3), X)}, s \in {C(2), Bin("mul", C(4), Y)}, s2 \in {Z, C(5)}, r \in MoveSides}
  \cup {Case("move.addend.deepright", "move", "", "top", Bin("eq", r, Bin("add", s, Bin("add", t, s2))), <<"R", "R", "L">>, "apply", "exact",
             <<Bin("eq", Bin("sub", r, t), Bin("add", s, s2))>>, NoFP)
      : t \in {C(7), X, Bin("mul", C(3), X)}, s \in {C(2), Bin("mul", C(4), Y)}, s2 \in {Z, C(5)}, r \in MoveSides}
  \* the addend's parent hangs on the other side of its grandparent than the side of '=' it lives on
  \cup {Case("move.addend.cross.l", "move", "", "top", Bin("eq", Bin("add", s, Bin("add", t, s2)), r), <<"L", "R", "L">>, "apply", "exact",
             <<Bin("eq", Bin("add", s, s2), Bin("sub", r, t))>>, NoFP)
      : t \in {C(7), X, Bin("mul", C(3), X)}, s \in {C(2), Bin("mul", C(4), Y)}, s2 \in {Z, C(5)}, r \in MoveSides}
  \cup {Case("move.addend.cross.l2", "move", "", "top", Bin("eq", Bin("add", s, Bin("add", s2, t)), r), <<"L", "R", "R">>, "apply", "exact",
             <<Bin("eq", Bin("add", s, s2), Bin("sub", r, t))>>, NoFP)
      : t \in {C(7), X, Bin("mul", C(3), X)}, s \in {C(2), Bin("mul", C(4), Y)}, s2 \in {Z, C(5)}, r \in MoveSides}
  \cup {Case("move.addend.cross.r", "move", "", "top", Bin("eq", r, Bin("add", Bin("add", t, s), s2)), <<"R", "L", "L">>, "apply", "exact",
             <<Bin("eq", Bin("sub", r, t), Bin("add", s, s2))>>, NoFP)
      : t \in {C(7), X, Bin("mul", C(3), X)}, s \in {C(2), Bin("mul", C(4), Y)}, s2 \in {Z, C(5)}, r \in MoveSides}
  \cup {Case("move.addend.cross.r2", "move", "", "top", Bin("eq", r, Bin("add", Bin("add", s, t), s2)), <<"R", "L", "R">>, "apply", "exact",
             <<Bin("eq", Bin("sub", r, t), Bin("add", s, s2))>>, NoFP)
      : t \in {C(7), X, Bin("mul", C(3), X)}, s \in {C(2), Bin("mul", C(4), Y)}, s2 \in {Z, C(5)}, r \in MoveSides}
  \cup {Case("move.addend.fromright", "move", "", "top", Bin("eq", r, Bin("add", t, s)), <<"R", "L">>, "apply", "exact", <<Bin("eq", Bin("sub", r, t), s)>>, NoFP)
      : t \in {C(7), X, Bin("mul", C(3), X)}, s \in {C(2), Bin("mul", C(4), Y)}, r \in MoveSides}
  \* a non-zero coefficient of a side without additions divides both sides
  \cup {Case("move.coef.l", "move", "", "top", Bin("eq", Bin("mul", c, w), r), <<"L", "L">>, "apply", "exact",
             <<Bin("eq", Bin("div", Bin("mul", c, w), c), Bin("div", r, c))>>, NoFP)
      : c \in {C(3), C(-2), Q(1, 2)}, w \in {X, Bin("pow", X, C(2))}, r \in {C(3), Bin("mul", C(2), Y), C(0)}}
  \cup {Case("move.coef.r", "move", "", "top", Bin("eq", r, Bin("mul", c, w)), <<"R", "L">>, "apply", "exact",
             <<Bin("eq", Bin("div", r, c), Bin("div", Bin("mul", c, w), c))>>, NoFP)
      : c \in {C(3), C(-2)}, w \in {X, Bin("pow", X, C(2))}, r \in {C(8), Bin("mul", C(2), Y)}}
  \* not an equation; a coefficient while an addition remains on its side; a zero coefficient; an addend that is not top-level
  \cup {Case("move.not.noeq", "move", "", "top", Bin("add", Bin("mul", C(2), X), C(3)), p, "refuse", "exact", <<>>, NoFP) : p \in {<<"L">>, <<"R">>, <<"L", "L">>}}
  \cup {Case("move.not.addremains", "move", "", "top", Bin("eq", Bin("add", Bin("mul", C(2), X), C(1)), C(3)), <<"L", "L", "L">>, "refuse", "exact", <<>>, NoFP)}
  \cup {Case("move.not.zero", "move", "", "top", Bin("eq", Bin("mul", C(0), X), C(0)), <<"L", "L">>, "refuse", "exact", <<>>, NoFP)}
  \cup {Case("move.not.nested", "move", "", "top", Bin("eq", pair[1], C(3)), pair[2], "refuse", "exact", <<>>, NoFP)
      : pair \in {<<Bin("mul", Bin("add", X, C(1)), C(2)), <<"L", "L", "L">>>>, <<Bin("pow", Bin("add", X, C(1)), C(2)), <<"L", "L", "R">>>>,
                  <<Un("neg", Bin("add", X, C(1))), <<"L", "R", "L">>>>, <<Bin("sub", C(4), Bin("add", X, C(1))), <<"L", "R", "L">>>>,
                  <<Un("sgn", Bin("add", X, C(1))), <<"L", "R", "R">>>>, <<Bin("div", Bin("add", X, C(3)), C(2)), <<"L", "L", "R">>>>}}

AllCases == Commutative \cup Associative \cup ConstantArithmetic \cup FactorOut \cup Distribute \cup Inverse \cup Restate \cup VariableMultiply \cup BalancedMove

(* ================= comparison up to AC ================= *)
RECURSIVE FlatK(_,_), ACNF(_), SeqBag(_)
FlatK(t, k) == IF t.k = k THEN FlatK(t.l, k) \o FlatK(t.r, k) ELSE <<t>>
SeqBag(s) == IF Len(s) = 0 THEN EmptyBag ELSE SetToBag({ACNF(Head(s))}) (+) SeqBag(Tail(s))
ACNF(t) == CASE t.k = "c" -> [k |-> "c", v |-> ConstM(t, P)]
             [] t.k = "v" -> t
             [] t.k \in {"add", "mul"} -> [k |-> t.k, ops |-> SeqBag(FlatK(t, t.k))]
             [] IsUn(t.k) -> [k |-> t.k, c |-> ACNF(t.c)]
             [] OTHER -> [k |-> t.k, l |-> ACNF(t.l), r |-> ACNF(t.r)]
RECURSIVE NormC(_)
NormC(t) == CASE t.k = "c" -> [k |-> "c", v |-> ConstM(t, P)] [] t.k = "v" -> t
              [] IsUn(t.k) -> [k |-> t.k, c |-> NormC(t.c)] [] OTHER -> [k |-> t.k, l |-> NormC(t.l), r |-> NormC(t.r)]

\* (coefficient, variable, exponent) of a natural-order term, coefficient <<1,1>> / exponent <<0,0>> when absent; [ok |-> FALSE] otherwise
TripleOf(t) ==
  LET pw(x) == IF x.k = "v" THEN [ok |-> TRUE, u |-> x.id, e |-> <<0, 0>>]
               ELSE IF x.k = "pow" /\ x.l.k = "v" /\ x.r.k = "c" /\ x.r.d # 0 THEN [ok |-> TRUE, u |-> x.l.id, e |-> NormQ(x.r.n, x.r.d)]
               ELSE [ok |-> FALSE]
  IN IF t.k = "c" /\ t.d # 0 THEN [ok |-> TRUE, c |-> NormQ(t.n, t.d), u |-> 0, e |-> <<0, 0>>]
     ELSE IF t.k = "mul" /\ t.l.k = "c" /\ t.l.d # 0 /\ pw(t.r).ok THEN [ok |-> TRUE, c |-> NormQ(t.l.n, t.l.d), u |-> pw(t.r).u, e |-> pw(t.r).e]
     ELSE IF pw(t).ok THEN [ok |-> TRUE, c |-> <<1, 1>>, u |-> pw(t).u, e |-> pw(t).e]
     ELSE [ok |-> FALSE]
\* res is a product of (p' + q') and k u^e with k p' = p and k q' = q
IsFactoredPair(s, f, fp) ==
  /\ s.k = "add" /\ s.l.k = "c" /\ s.r.k = "c" /\ s.l.d # 0 /\ s.r.d # 0
  /\ LET tr == TripleOf(f) IN
       /\ tr.ok /\ tr.u = fp.u /\ tr.e = (IF fp.e = <<0, 0>> THEN <<0, 0>> ELSE NormQ(fp.e[1], fp.e[2]))
       /\ MulQ(tr.c, NormQ(s.l.n, s.l.d)) = NormQ(fp.p[1], fp.p[2])
       /\ MulQ(tr.c, NormQ(s.r.n, s.r.d)) = NormQ(fp.q[1], fp.q[2])
IsFactored(res, fp) == res.k = "mul" /\ (IsFactoredPair(res.l, res.r, fp) \/ IsFactoredPair(res.r, res.l, fp))
\* with kept addends: exactly one addend of the sum is the factored product, the others are the kept ones
FactoredWithKeep(res, fp) ==
  IF Len(fp.keep) = 0 THEN IsFactored(res, fp)
  ELSE LET adds == FlatK(res, "add") IN
       \E i \in 1..Len(adds) : /\ IsFactored(adds[i], fp)
                               /\ SeqBag([j \in 1..(Len(adds) - 1) |-> adds[IF j < i THEN j ELSE j + 1]]) = SeqBag(fp.keep)
=============================================================================
