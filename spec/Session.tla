------------------------------- MODULE Session -------------------------------
(***************************************************************************)
(* A rewriting session (C09): parse a text, then repeatedly choose any rule  *)
(* and any node where it applies; each step is applied to a copy cloned from *)
(* the root.  State: the starting term, the current term, whether exactness  *)
(* of constants is still known.  The step relation is the relational         *)
(* contract: ANY result that is well formed, prints and re-parses to the     *)
(* same meaning and means the same as the START is allowed; earlier states   *)
(* must never be altered.                                                     *)
(***************************************************************************)
EXTENDS Rules
\* s: one recorded step of a walk: [outcome, hr (heap of the result tree), res, src (term the step started from),
\*    reparse, re, changed (modifications of objects that existed before the step)]
WalkStepClauses(start, cur, exact, s) ==
  IF s.outcome # "ok" THEN {"raises_after_can_apply"} ELSE
  IF s.res = 0 THEN {"result_not_expression"} ELSE
  LET wfo == WFExprFailing(s.hr, s.res) IN
  (IF s.src = cur THEN {} ELSE {"harness_discontinuity"})
  \cup (IF Len(s.changed) = 0 THEN {} ELSE {"earlier_state_altered"})
  \cup (IF wfo # {} THEN wfo ELSE
        LET o == TermOf(s.hr, s.res)
            fin == Finite(o)
            ex == exact /\ ~InexactNew(cur, o)
        IN (IF ~fin \/ ~ex \/ Same(start, o) THEN {} ELSE {IF IsEq(start) THEN "solutions_differ_from_start" ELSE "value_differs_from_start"})
      \cup (IF Vars(o) = Vars(start) THEN {} ELSE {"vars_differ_from_start"})
      \cup (IF ~fin \/ (s.reparse = "ok" /\ KnownKinds(s.re) /\ Same(o, s.re) /\ Vars(o) = Vars(s.re)) THEN {} ELSE {"roundtrip"}))
\* the state after the step (the walk continues from the observed result)
NextCur(cur, s) == IF s.outcome = "ok" /\ s.res # 0 /\ WFExprFailing(s.hr, s.res) = {} THEN TermOf(s.hr, s.res) ELSE cur
NextExact(cur, exact, s) == exact /\ (IF s.outcome = "ok" /\ s.res # 0 /\ WFExprFailing(s.hr, s.res) = {}
                                      THEN Finite(TermOf(s.hr, s.res)) /\ ~InexactNew(cur, TermOf(s.hr, s.res)) ELSE TRUE)
=============================================================================
