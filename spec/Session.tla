------------------------------- MODULE Session -------------------------------
(***************************************************************************)
(* A rewriting session (C09): parse a text, then repeatedly choose any rule  *)
(* and any node where it applies; each step is applied to a copy cloned from *)
(* the root.  State: the starting term, the current term, whether exactness  *)
(* of constants is still known.  The step relation is the relational         *)
(* contract: ANY result that is well formed, prints and re-parses to the     *)
(* same meaning and means the same as the START is allowed; earlier states   *)
(* must never be altered.                                                     *)
(***************************************************************************)
EXTENDS RulesImpl
\* in-order sequence of the paths of a term's nodes (the driver names the rewritten node by its in-order index)
RECURSIVE InOrderPaths(_,_)
InOrderPaths(t, here) ==
  IF IsLeafK(t.k) THEN <<here>>
  ELSE IF IsUn(t.k) THEN <<here>> \o InOrderPaths(t.c, Append(here, "R"))
  ELSE InOrderPaths(t.l, Append(here, "L")) \o <<here>> \o InOrderPaths(t.r, Append(here, "R"))
\* a fold whose new constant cannot be held exactly: judged against the exact big-rational value of c1 op c2
FoldWithinRounding(cur, s, o) ==
  LET paths == InOrderPaths(cur, <<>>)
      consts(t) == {x \in SubtermSet(t) : x.k = "c"}
      new == consts(o) \ consts(cur) IN
  IF s.rule # "fold" \/ s.k + 1 > Len(paths) \/ Cardinality(new) # 1 THEN TRUE ELSE
  LET ex == FoldExact(cur, paths[s.k + 1])  a == ConstBQ(CHOOSE x \in new : TRUE) IN
  ~ex.ok \/ ~a.ok \/ ApproxSame(ex, a, 12)
\* s: one recorded step of a walk: [rule, k, outcome, hr (heap of the result tree), res, src (term the step started from),
\*    reparse, re, changed (modifications of objects that existed before the step)]
\* ref: the term the current one must mean the same as (the start, re-based after every step that had to be judged up to rounding)
WalkStepClauses(start, ref, cur, s) ==
  IF s.outcome # "ok" THEN {"raises_after_can_apply"} ELSE
  IF s.res = 0 THEN {"result_not_expression"} ELSE
  LET wfo == WFExprFailing(s.hr, s.res) IN
  (IF s.src = cur THEN {} ELSE {"harness_discontinuity"})
  \cup (IF Len(s.changed) = 0 THEN {} ELSE {"earlier_state_altered"})
  \cup (IF wfo # {} THEN wfo ELSE
        LET o == TermOf(s.hr, s.res)
            fin == Finite(o)
            exact == ~InexactNew(cur, o)
            wrong == IF IsEq(start) THEN "solutions_differ_from_start" ELSE "value_differs_from_start"
        IN (IF ~fin THEN {}
            ELSE IF exact THEN (IF Same(ref, o) THEN {} ELSE {wrong})
            ELSE (IF FoldWithinRounding(cur, s, o) THEN {"note_judged_up_to_rounding"} ELSE {wrong}))
      \cup (IF Vars(o) = Vars(start) THEN {} ELSE {"vars_differ_from_start"})
      \cup (IF ~fin \/ (s.reparse = "ok" /\ KnownKinds(s.re) /\ Same(o, s.re) /\ Vars(o) = Vars(s.re)) THEN {} ELSE {"roundtrip"}))
\* the state after the step (the walk continues from the observed result)
StepOK(s) == s.outcome = "ok" /\ s.res # 0 /\ WFExprFailing(s.hr, s.res) = {}
NextCur(cur, s) == IF StepOK(s) THEN TermOf(s.hr, s.res) ELSE cur
\* re-base the reference after a step that created a constant the projection cannot hold exactly
NextRef(ref, cur, s) == IF StepOK(s) /\ Finite(TermOf(s.hr, s.res)) /\ InexactNew(cur, TermOf(s.hr, s.res)) THEN TermOf(s.hr, s.res) ELSE ref
=============================================================================
