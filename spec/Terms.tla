-------------------------------- MODULE Terms --------------------------------
(***************************************************************************)
(* Reference term algebra for C16.                                           *)
(*  - sums as trees over addend indices; the AC moves Commute / Reassoc and   *)
(*    the rearrangement classes they generate (TLC enumerates them);          *)
(*  - the (coefficient, variable, exponent) triple of a natural-order term,   *)
(*    its text, and the value c * v^e;                                        *)
(*  - divisor pairs of a positive integer.                                    *)
(***************************************************************************)
EXTENDS Integers, Sequences, FiniteSets
\* a sum tree: a leaf is <<0, addend index, 0>>, an inner node is <<1, left, right>>
LeafT(i) == <<0, i, 0>>
NodeT(l, r) == <<1, l, r>>
IsLeafT(t) == t[1] = 0
RECURSIVE FlattenT(_)
FlattenT(t) == IF IsLeafT(t) THEN <<t[2]>> ELSE FlattenT(t[2]) \o FlattenT(t[3])
RECURSIVE BagOf(_)
BagOf(s) == IF Len(s) = 0 THEN [x \in {} |-> 0]
            ELSE LET b == BagOf(Tail(s))  h == Head(s) IN
                 [x \in DOMAIN b \cup {h} |-> (IF x \in DOMAIN b THEN b[x] ELSE 0) + (IF x = h THEN 1 ELSE 0)]
\* all trees reachable by one AC move anywhere in t
RECURSIVE Moves(_)
Moves(t) ==
  IF IsLeafT(t) THEN {}
  ELSE {NodeT(t[3], t[2])}                                                                   \* commute here
       \cup (IF ~IsLeafT(t[2]) THEN {NodeT(t[2][2], NodeT(t[2][3], t[3]))} ELSE {})            \* (a+b)+c -> a+(b+c)
       \cup (IF ~IsLeafT(t[3]) THEN {NodeT(NodeT(t[2], t[3][2]), t[3][3])} ELSE {})            \* a+(b+c) -> (a+b)+c
       \cup {NodeT(u, t[3]) : u \in Moves(t[2])} \cup {NodeT(t[2], u) : u \in Moves(t[3])}
RECURSIVE LeftChain(_)
LeftChain(s) == IF Len(s) = 1 THEN LeafT(s[1]) ELSE NodeT(LeftChain(SubSeq(s, 1, Len(s) - 1)), LeafT(s[Len(s)]))

\* divisor pairs of n >= 1
\* integer square root (n < 2^31: the root is at most 46340, and 46341^2 would overflow TLC's integers)
ISqrt(n) == CHOOSE r \in 0..46340 : r * r <= n /\ (r = 46340 \/ (r + 1) * (r + 1) > n)
\* every divisor is d or n \div d for some d up to the root
Divisors(n) == IF n <= 4096 THEN {d \in 1..n : n % d = 0}
               ELSE LET S == {d \in 1..ISqrt(n) : n % d = 0} IN S \cup {n \div d : d \in S}
=============================================================================
