------------------------------ MODULE Tokenizer ------------------------------
(***************************************************************************)
(* The tokenizer of mathy_core as a state machine over code points.        *)
(* Text is a sequence of code points (TLC strings are not sequences).      *)
(* One action per branch of the scanner: Constant (maximal digit/dot run), *)
(* Alpha (maximal letter run: one Function token iff the whole run is a    *)
(* registered name, else one Variable per letter), Operator (with the      *)
(* three aliases), Pad (kept or dropped), Reject, Finish (the single EOF). *)
(* Written from the property statement (C11) and the tokenizer docs.       *)
(***************************************************************************)
EXTENDS Integers, Sequences, FiniteSets

\* token type codes = bit index used by mathy_core.tokenizer.TOKEN_TYPES
TConst == 0   TVar == 1    TPlus == 2   TMinus == 3  TMul == 4   TDiv == 5
TExp == 6     TFact == 7   TOpen == 8   TClose == 9  TFunc == 10 TEqual == 11
TPad == 12    TEOF == 13   TInvalid == 14

Digit(c)  == c \in 48..57
NumCh(c)  == c = 46 \/ Digit(c)
Letter(c) == c \in 65..90 \/ c \in 97..122
PadCh(c)  == c \in {32, 9, 13, 10}
OpType(c) == CASE c = 43 -> TPlus
               [] c \in {45, 8211} -> TMinus
               [] c = 42 -> TMul
               [] c = 47 -> TDiv
               [] c = 94 -> TExp
               [] c = 33 -> TFact
               [] c \in {40, 91} -> TOpen
               [] c \in {41, 93} -> TClose
               [] c = 61 -> TEqual
               [] OTHER -> TInvalid
\* the three documented normalisations
Norm(c) == CASE c = 8211 -> 45 [] c = 91 -> 40 [] c = 93 -> 41 [] OTHER -> c
NormSeq(s) == [i \in 1..Len(s) |-> Norm(s[i])]
Supported(c) == NumCh(c) \/ Letter(c) \/ PadCh(c) \/ OpType(c) # TInvalid

Tok(t, v) == [t |-> t, v |-> v]
EOFTok == Tok(TEOF, <<>>)

\* last index j >= i such that buf[i..j] all satisfy the class test (NumCh when num, else Letter)
RECURSIVE RunEnd(_,_,_)
RunEnd(buf, i, num) ==
  IF i + 1 <= Len(buf) /\ (IF num THEN NumCh(buf[i+1]) ELSE Letter(buf[i+1]))
  THEN RunEnd(buf, i + 1, num) ELSE i

(* One scanner step on state s = [idx, toks, st] *)
StepOf(buf, keepPad, funcs, s) ==
  IF s.idx > Len(buf) THEN [s EXCEPT !.toks = Append(@, EOFTok), !.st = "done"]
  ELSE LET c == buf[s.idx] IN
    IF NumCh(c) THEN
       LET j == RunEnd(buf, s.idx, TRUE) IN
       [s EXCEPT !.toks = Append(@, Tok(TConst, SubSeq(buf, s.idx, j))), !.idx = j + 1]
    ELSE IF Letter(c) THEN
       LET j == RunEnd(buf, s.idx, FALSE)
           run == SubSeq(buf, s.idx, j) IN
       IF run \in funcs THEN [s EXCEPT !.toks = Append(@, Tok(TFunc, run)), !.idx = j + 1]
       ELSE [s EXCEPT !.toks = @ \o [k \in 1..Len(run) |-> Tok(TVar, <<run[k]>>)], !.idx = j + 1]
    ELSE IF PadCh(c) THEN
       [s EXCEPT !.toks = IF keepPad THEN Append(@, Tok(TPad, <<c>>)) ELSE @, !.idx = @ + 1]
    ELSE IF OpType(c) # TInvalid THEN
       [s EXCEPT !.toks = Append(@, Tok(OpType(c), <<Norm(c)>>)), !.idx = @ + 1]
    ELSE [s EXCEPT !.st = "rejected"]

Start == [idx |-> 1, toks |-> <<>>, st |-> "run"]
RECURSIVE RunFrom(_,_,_,_)
RunFrom(buf, keepPad, funcs, s) ==
  IF s.st # "run" THEN s ELSE RunFrom(buf, keepPad, funcs, StepOf(buf, keepPad, funcs, s))

\* The unique outcome the property prescribes: [ok, toks]
SpecTokens(buf, keepPad, funcs) ==
  LET f == RunFrom(buf, keepPad, funcs, Start) IN
  IF f.st = "done" THEN [ok |-> TRUE, toks |-> f.toks] ELSE [ok |-> FALSE, toks |-> <<>>]

(* -------- relational clauses of C11, stated over an observed token list -------- *)
RECURSIVE ConcatVals(_)
ConcatVals(ts) == IF Len(ts) = 0 THEN <<>> ELSE Head(ts).v \o ConcatVals(Tail(ts))
Lossless(buf, toksKeep) == ConcatVals(toksKeep) = NormSeq(buf)
OneEOFLast(ts) == Len(ts) >= 1 /\ ts[Len(ts)].t = TEOF /\ \A i \in 1..(Len(ts)-1) : ts[i].t # TEOF
\* adjacency (maximality) clauses are meaningful only when padding tokens are kept
ClassesOK(ts, funcs, keep) ==
  \A i \in 1..Len(ts) : LET t == ts[i] IN
     /\ t.t = TConst => Len(t.v) >= 1 /\ (\A k \in 1..Len(t.v) : NumCh(t.v[k]))
                        /\ ((keep /\ i < Len(ts)) => ts[i+1].t # TConst)    \* maximal run
     /\ t.t = TVar   => Len(t.v) = 1 /\ Letter(t.v[1])
     /\ t.t = TFunc  => t.v \in funcs
                        /\ ((keep /\ i > 1) => ts[i-1].t \notin {TVar, TFunc})       \* whole letter run
                        /\ ((keep /\ i < Len(ts)) => ts[i+1].t \notin {TVar, TFunc})
     /\ t.t = TPad   => Len(t.v) = 1 /\ PadCh(t.v[1])
     /\ t.t \in {TPlus,TMinus,TMul,TDiv,TExp,TFact,TOpen,TClose,TEqual} => Len(t.v) = 1 /\ OpType(t.v[1]) = t.t
     /\ t.t = TEOF => t.v = <<>>
     /\ t.t # TInvalid
\* a maximal run of Variable tokens never spells a registered function name
RECURSIVE VarRunFrom(_,_)
VarRunFrom(ts, i) == IF i <= Len(ts) /\ ts[i].t = TVar THEN <<ts[i].v[1]>> \o VarRunFrom(ts, i+1) ELSE <<>>
\* (stated over the padding-kept list)
NoMissedFunction(ts, funcs) ==
  \A i \in 1..Len(ts) : (ts[i].t = TVar /\ (i = 1 \/ ts[i-1].t \notin {TVar})) => VarRunFrom(ts, i) \notin funcs
DropPad(toksKeep) == SelectSeq(toksKeep, LAMBDA t : t.t # TPad)
HasUnsupported(buf) == \E i \in 1..Len(buf) : ~Supported(buf[i])
=============================================================================
