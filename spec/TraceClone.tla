------------------------------ MODULE TraceClone ------------------------------
(* Trace validation for cloning (C13). Heaps carry payload; one object universe per event.
   clone  : c = t.clone()                        -> IsClone, disjoint, original untouched, eval/print equal
   cfr    : r = node.clone_from_root() / other.clone_from_root(node)
                                                 -> r sits at node's path inside a complete clone
   mutate : after a clone, one side is changed   -> the other side is unchanged *)
EXTENDS ExprHeap, TLC, Json, IOUtils
Events == ndJsonDeserialize(IOEnv.TRACE_FILE)
N == Len(Events)

PayloadEq(h, i, j) == /\ h.kind[i] = h.kind[j] /\ h.num[i] = h.num[j] /\ h.den[i] = h.den[j] /\ h.ex[i] = h.ex[j]
                      /\ h.vid[i] = h.vid[j] /\ h.nid[i] = h.nid[j] /\ h.side[i] = h.side[j] /\ h.cval[i] = h.cval[j]
RECURSIVE Iso(_,_,_,_)
Iso(h, i, j, fuel) ==
  IF i = 0 \/ j = 0 THEN i = j ELSE
  IF fuel = 0 THEN FALSE ELSE
  PayloadEq(h, i, j) /\ Iso(h, h.l[i], h.l[j], fuel - 1) /\ Iso(h, h.r[i], h.r[j], fuel - 1)
\* which payload differs first (for the verdict name)
RECURSIVE IsoShape(_,_,_,_)
IsoShape(h, i, j, fuel) == IF i = 0 \/ j = 0 THEN i = j ELSE IF fuel = 0 THEN FALSE ELSE
                           IsoShape(h, h.l[i], h.l[j], fuel - 1) /\ IsoShape(h, h.r[i], h.r[j], fuel - 1)
RECURSIVE IsoField(_,_,_,_,_)
IsoField(h, f, i, j, fuel) == IF i = 0 \/ j = 0 \/ fuel = 0 THEN TRUE ELSE
                              h[f][i] = h[f][j] /\ IsoField(h, f, h.l[i], h.l[j], fuel - 1) /\ IsoField(h, f, h.r[i], h.r[j], fuel - 1)
SameNodeArrays(h1, h2, S) == \A i \in S : /\ h1.l[i] = h2.l[i] /\ h1.r[i] = h2.r[i] /\ h1.p[i] = h2.p[i] /\ h1.kind[i] = h2.kind[i]
                                          /\ h1.num[i] = h2.num[i] /\ h1.den[i] = h2.den[i] /\ h1.vid[i] = h2.vid[i]
                                          /\ h1.nid[i] = h2.nid[i] /\ h1.side[i] = h2.side[i] /\ h1.cval[i] = h2.cval[i]
CloneClauses(h, root, croot) ==
  IF croot = 0 THEN {"clone_not_a_node"} ELSE
  LET A == Reach(h, root)  B == Reach(h, croot) IN
  (IF A \cap B = {} THEN {} ELSE {"shares_node_objects"})
  \cup (IF WF(h, croot) \/ h.p[croot] # 0 THEN {} ELSE WFFailing(h, croot))
  \cup (IF IsoShape(h, root, croot, h.n + 1) THEN
           {"differs_" \o f : f \in {f \in {"kind", "num", "den", "ex", "cval", "vid", "nid", "side"} : ~IsoField(h, f, root, croot, h.n + 1)}}
        ELSE {"shape_differs"})

CloneVerdict(e) ==
  IF e.outcome # "ok" THEN {"clone_raises"} ELSE
  CloneClauses(e.h, e.root, e.croot)
  \cup (IF SameNodeArrays(e.hb, e.h, 1..e.hb.n) THEN {} ELSE {"original_modified_by_clone"})
  \cup (IF e.h.p[e.croot] = 0 THEN {} ELSE {"clone_root_has_parent"})
  \cup (IF e.str_o = e.str_c THEN {} ELSE {"prints_differently"})
  \cup (IF e.eval_o = e.eval_c THEN {} ELSE {"evaluates_differently"})

CfrVerdict(e) ==
  IF e.outcome # "ok" THEN {"clone_from_root_raises"} ELSE
  IF e.ret = 0 THEN {"clone_from_root_not_a_node"} ELSE
  LET h == e.h
      root == RootOf(e.hb, e.node) IN
  IF Cardinality(Reach(h, RootOf(h, e.ret))) > h.n THEN {"harness"} ELSE
  LET croot == RootOf(h, e.ret) IN
  CloneClauses(h, root, croot)
  \cup (IF PathTo(h, e.ret) = PathTo(e.hb, e.node) THEN {} ELSE {"returned_node_at_wrong_position"})
  \cup (IF PayloadEq(h, e.ret, e.node) THEN {} ELSE {"returned_node_differs"})
  \cup (IF SameNodeArrays(e.hb, h, 1..e.hb.n) THEN {} ELSE {"original_modified_by_clone"})

\* after a mutation on one side, every object of the other side is unchanged
MutateVerdict(e) ==
  (IF SameNodeArrays(e.hb, e.h, {i \in 1..e.hb.n : e.owner[i] = e.other}) THEN {} ELSE {"other_tree_changed"})
  \cup (IF e.str_before = e.str_after THEN {} ELSE {"other_tree_prints_differently"})
  \cup (IF e.eval_before = e.eval_after THEN {} ELSE {"other_tree_evaluates_differently"})

Verdict(e) == CASE e.typ = "clone" -> CloneVerdict(e) [] e.typ = "cfr" -> CfrVerdict(e) [] e.typ = "mutate" -> MutateVerdict(e)
                [] OTHER -> {"harness_unknown_event"}
VARIABLES i, v
Init == i \in 1..N /\ v = {"pending"}
Next == v = {"pending"} /\ v' = Verdict(Events[i]) /\ UNCHANGED i
Report == (v # {"pending"} /\ v # {}) => PrintT(<<"FAIL", Events[i].eid, v>>)
Done == TLCGet("generated") >= 0 /\ PrintT(<<"DONE", N>>)
=============================================================================
