------------------------------ MODULE TraceEval ------------------------------
(* Trace validation of MathExpression.evaluate (C05). Observation o:
     [t:"int", b: big] | [t:"float", q: <<n,d>> recovered simple rational or <<0,0>>, whole: big or none]
     | [t:"nan"] | [t:"inf"] | [t:"exc", cls] *)
EXTENDS EvalBig, TLC, Json, IOUtils
ASSUME BigSelfCheck
Events == ndJsonDeserialize(IOEnv.TRACE_FILE)
N == Len(Events)
\* o.neg: the observed number is negative - a negative int, a float with its sign bit set (this includes -0.0) or -inf
SignVerdict(e) == IF e.obs.t \in {"int", "float", "inf"} /\ e.obs.neg /\ NonNeg(e.term, e.ctx) THEN {"negative_result_of_nonnegative_expression"} ELSE {}
ValueVerdict(e) ==
  LET o == e.obs  t == e.term  ctx == e.ctx IN
  IF AnyMissing(t, ctx) THEN (IF o.t = "exc" THEN {} ELSE {"missing_variable_not_reported"}) ELSE
  IF IntUnequal(t, ctx) THEN (IF o.t = "exc" THEN {} ELSE {"unequal_equation_not_raised"}) ELSE
  LET iv == IntVal(t, ctx) IN
  IF iv.ok THEN
       (IF o.t = "int" THEN (IF BCmp(o.b, iv.v) = 0 THEN {} ELSE {"integer_result_wrong"})
        ELSE IF o.t = "float" /\ o.whole.ok THEN (IF BCmp(o.whole.b, iv.v) = 0 THEN {"note_float_typed_integer"} ELSE {"integer_result_wrong"})
        ELSE IF o.t = "exc" THEN {"raises_on_defined_integer_expression"}
        ELSE {"integer_result_wrong"})
  ELSE LET q == RatVal(t, ctx) IN
       IF q = UndefQ THEN {"note_not_judged"}
       ELSE IF IsNaN(q) THEN (IF o.t = "nan" THEN {} ELSE {"division_by_zero_not_nan"})
       ELSE IF o.t = "float" THEN
              (IF o.q = q THEN {}
               ELSE LET mag == MagVal(t, ctx) IN
                    IF mag = UndefQ THEN {"note_not_judged"}
                    ELSE IF WithinRounding(o.fn, o.fd, q, mag) THEN {"note_within_forward_error_bound"} ELSE {"float_result_wrong"})
       ELSE IF o.t = "int" THEN (IF IsSmall(o.b) /\ <<SmallInt(o.b), 1>> = q THEN {} ELSE {"float_result_wrong"})
       ELSE IF o.t = "exc" THEN {"raises_on_defined_expression"}
       ELSE {"float_result_wrong"}
\* o.t = "mutated": the assignment handed to evaluate() was not the same afterwards (a key inserted by a careless look-up)
TypeVerdict(e) == IF IntTyped(e.term, e.ctx) /\ e.obs.t \in {"float", "inf", "nan"} /\ ~(e.obs.t = "float" /\ e.obs.whole.ok)
                  THEN {"integer_expression_not_integer_typed"} ELSE {}
\* (a result of millions of bits is not shipped to the validator: o.huge - judged by type and sign only)
\* an equation whose sides are exactly computable and clearly apart must raise, whatever the number types involved
FarApartVerdict(e) == IF EqFarApart(e.term, e.ctx) /\ e.obs.t # "exc" THEN {"unequal_equation_not_raised"} ELSE {}
\* IEEE special values: an operation that overflows gives an infinity of the right sign, an invalid operation (inf - inf, inf * 0,
\* inf / inf, anything / 0) gives NaN, and a computation that stays well inside the range gives a finite number - never an exception
ExtVerdict(e) ==
  LET x == ExtVal(e.term, e.ctx)  o == e.obs IN
  IF AnyMissing(e.term, e.ctx) \/ e.term.k = "eq" THEN {} ELSE
  CASE x.c = "inf" -> (IF o.t = "inf" /\ o.neg = (x.s < 0) THEN {"note_special_infinity"} ELSE {"overflow_is_not_the_signed_infinity"})
    [] x.c = "nan" -> (IF o.t = "nan" THEN {"note_special_nan"} ELSE {"invalid_operation_is_not_nan"})
    [] x.c = "fin" -> (IF o.t \in {"float", "int"} THEN {} ELSE {"finite_value_reported_as_special_or_raised"})
    [] OTHER -> {}
Verdict(e) == IF e.obs.t = "mutated" THEN {"evaluate_modifies_the_assignment"}
              ELSE IF e.obs.t = "int" /\ e.obs.huge THEN SignVerdict(e) \cup (IF IntTyped(e.term, e.ctx) THEN {} ELSE {"note_not_judged"})
              ELSE SignVerdict(e) \cup TypeVerdict(e) \cup ValueVerdict(e) \cup FarApartVerdict(e) \cup ExtVerdict(e)
VARIABLES i, v
Init == i \in 1..N /\ v = {"pending"}
Next == v = {"pending"} /\ v' = Verdict(Events[i]) /\ UNCHANGED i
Report == (v # {"pending"} /\ v # {}) => PrintT(<<"FAIL", Events[i].eid, v>>)
Done == TLCGet("generated") >= 0 /\ PrintT(<<"DONE", N>>)
=============================================================================
