------------------------------- MODULE TraceGen -------------------------------
(* Trace validation of the problem generators and their helpers (C17). *)
EXTENDS Problems, TLC, Json, IOUtils
Events == ndJsonDeserialize(IOEnv.TRACE_FILE)
N == Len(Events)
SetOfS(s) == {s[k] : k \in 1..Len(s)}
Verdict(e) ==
  CASE e.typ = "gen" ->
        IF e.outcome # "ok" THEN {"generator_raises"} ELSE
        LET ref == ParseText(e.buf) IN
        (IF e.real_ok THEN {} ELSE {"text_not_accepted_by_parser"})
        \cup (IF ref.ok = e.real_ok THEN {} ELSE {"drift_reference_grammar_disagrees"})
        \cup (IF e.complexity > 0 THEN {} ELSE {"complexity_not_positive"})
        \cup (IF e.promise = "none" \/ ~ref.ok THEN {} ELSE
              IF e.promise = "like" THEN (IF HasLikePair(ref.ast) THEN {} ELSE {"promised_like_terms_missing"})
              ELSE (IF LikePairSeparatedBy(ref.ast, e.blockers) THEN {} ELSE {"promised_like_terms_missing"}))
    [] e.typ = "vars" ->
        IF e.outcome # "ok" THEN (IF e.should_raise THEN {} ELSE {"get_rand_vars_raises"}) ELSE
        (IF e.should_raise THEN {"get_rand_vars_should_refuse"} ELSE {})
        \cup (IF Len(e.vars) = e.num THEN {} ELSE {"wrong_number_of_variables"})
        \cup (IF Cardinality(SetOfS(e.vars)) = Len(e.vars) THEN {} ELSE {"variables_not_distinct"})
        \cup (IF SetOfS(e.vars) \cap SetOfS(e.exclude) = {} THEN {} ELSE {"excluded_variable_returned"})
    [] e.typ = "templates" ->
        \* (variable, exponent) keys: the requested number, pairwise distinct, none excluded, never the exponent 1
        IF e.outcome = "gave_up" THEN {} ELSE IF e.outcome # "ok" THEN {"get_rand_term_templates_raises"} ELSE
        (IF Len(e.keys) = e.num THEN {} ELSE {"wrong_number_of_templates"})
        \cup (IF Cardinality(SetOfS(e.keys)) = Len(e.keys) THEN {} ELSE {"templates_not_distinct"})
        \cup (IF SetOfS(e.keys) \cap SetOfS(e.exclude) = {} THEN {} ELSE {"excluded_template_returned"})
        \cup (IF \A k \in 1..Len(e.keys) : e.keys[k][2] # 1 THEN {} ELSE {"template_with_exponent_one"})
    [] e.typ = "split" ->
        (IF e.outcome = "ok" /\ e.lower + e.higher = e.value /\ 0 <= e.lower /\ e.lower <= e.higher THEN {} ELSE {"split_does_not_sum"})
    [] e.typ = "number" ->
        \* the printed form of a generated number is read back by the tokenizer as [minus] one constant with that value
        LET tk == SpecTokens(e.buf, FALSE, SgnTable) IN
        (IF tk.ok /\ Len(tk.toks) \in {2, 3} /\ tk.toks[Len(tk.toks) - 1].t = TConst /\ WellFormedNumeral(tk.toks[Len(tk.toks) - 1].v)
            /\ (Len(tk.toks) = 3 => tk.toks[1].t = TMinus)
            /\ ConstM(NumTerm(tk.toks[Len(tk.toks) - 1].v, Len(tk.toks) = 3), P) = ConstM(e.value, P)
         THEN {} ELSE {"number_text_not_read_back"})
    [] OTHER -> {"harness_unknown_event"}
VARIABLES i, v
Init == i \in 1..N /\ v = {"pending"}
Next == v = {"pending"} /\ v' = Verdict(Events[i]) /\ UNCHANGED i
Report == (v # {"pending"} /\ v # {}) => PrintT(<<"FAIL", Events[i].eid, v>>)
Done == TLCGet("generated") >= 0 /\ PrintT(<<"DONE", N>>)
=============================================================================
