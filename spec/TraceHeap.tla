------------------------------ MODULE TraceHeap ------------------------------
(* Trace validation for the HEAP family: traversals and look-ups (C14), rotation (C15).
   Each event carries the pointer-level heap(s) projected from the real objects and what
   the real API returned; the verdict names every failing clause. *)
EXTENDS Heap, TLC, Json, IOUtils
Events == ndJsonDeserialize(IOEnv.TRACE_FILE)
N == Len(Events)
Orders == {"pre", "in", "post"}

SetOfSeq(s) == {s[k] : k \in 1..Len(s)}
PosIn(calls, node) == CHOOSE p \in 1..Len(calls) : calls[p][1] = node
Shift(calls, k) == calls          \* (the harness already subtracts the start depth; -99 marks a data object that was not handed through)
VisitVerdict(e) ==
  LET h == e.h  root == e.root IN
  \* a tree obtained through the copy protocol must itself be consistently linked (child and parent links agree)
  IF ~WF(h, root) THEN {(IF e.via # "" THEN "links_inconsistent_after_" \o e.via \o "_" ELSE "harness_") \o c : c \in WFFailing(h, root)} ELSE
  LET exp(o) == Order(h, root, o)
      io == InOrderNodes(h, root)
      S == Reach(h, root)
  IN  {"full_" \o o : o \in {o \in Orders : e.orders[o].full # exp(o)}}
 \cup {"start_depth_or_data_" \o o : o \in {o \in Orders : \E k \in 1..Len(e.orders[o].shifted) : e.orders[o].shifted[k] # exp(o)}}
 \cup {"odd_answer_taken_for_stop_" \o o : o \in {o \in Orders : \E k \in 1..Len(e.orders[o].odd) : e.orders[o].odd[k] # Append(exp(o), <<0, 0>>)}}
 \* pruning: the k-th callback removes the subtree rooted at `cut` (an operand of the node it was called for); its nodes that had
 \* not been reached yet (they come after position k in the defining order) get no callback, everything else is as before
 \cup {"note_pruned_nodes_still_visited_" \o o : o \in {o \in Orders : \E j \in 1..Len(e.prune) : LET x == e.prune[j] IN
            x.o = o /\ x.calls # SelectSeq(exp(o), LAMBDA c : ~(c[1] \in Reach(h, x.cut) /\ PosIn(exp(o), c[1]) > x.k))}}
 \cup {"visitor_raises_" \o o : o \in {o \in Orders : \E k \in 1..Len(e.orders[o].raising) : LET x == e.orders[o].raising[k] IN
            IF x.k \in 1..Len(exp(o)) THEN x.outcome # "raised" \/ x.seen # Stopped(exp(o), x.k) \/ x.again # exp(o)
            ELSE x.outcome # "returned" \/ x.again # exp(o)}}
 \cup {"reentrant_" \o o : o \in {o \in Orders : \E k \in 1..Len(e.orders[o].nested) : e.orders[o].nested[k] # exp(o)}}
 \cup {"stop_" \o o : o \in {o \in Orders : \E k \in 1..Len(e.orders[o].stops) :
            LET s == e.orders[o].stops[k] IN
              \/ s.calls # Stopped(exp(o), s.k)
              \/ s.ret # (IF s.k \in 1..Len(exp(o)) THEN "stop" ELSE "none")}}
 \cup {"from_inner_node_" \o o : o \in {o \in Orders : \E k \in 1..Len(e.sub) : LET s == e.sub[k] IN
            s.o = o /\ (s.calls # Order(h, s.start, o) \/ s.ret # "none" \/ (e.cls = "expr" /\ s.tolist # NodesOf(Order(h, s.start, o))))}}
 \cup (IF \A i \in S : e.q.root[i] = RootOf(h, i) THEN {} ELSE {"get_root"})
 \cup (IF \A i \in S \ {root} : e.q.rootside[i] = RootSide(h, i) THEN {} ELSE {"get_root_side"})
 \cup (IF \A i \in S \ {root} : e.q.side[i] = SideIn(h, h.p[i], i) THEN {} ELSE {"get_side"})
 \cup (IF \A i \in S : e.q.sibling[i] = Sibling(h, i) THEN {} ELSE {"get_sibling"})
 \cup (IF \A i \in S : e.q.children[i] = Children(h, i) THEN {} ELSE {"get_children"})
 \cup (IF \A i \in S : e.q.leaf[i] = IsLeaf(h, i) THEN {} ELSE {"is_leaf"})
 \cup (IF e.cls # "expr" THEN {} ELSE
        {"to_list_" \o o : o \in {o \in Orders : e.x.tolist[o] # NodesOf(exp(o))}}
   \cup (IF \A k \in 1..Len(e.x.findtype) : LET f == e.x.findtype[k] IN
               f.got = SelectSeq(io, LAMBDA i : h.kind[i] \in SetOfSeq(f.kinds)) THEN {} ELSE {"find_type"})
   \cup (IF \A k \in 1..Len(e.x.findid) : LET f == e.x.findid[k]
                                             have == {i \in S : h.nid[i] = f.id} IN
               IF have = {} THEN f.got = 0 ELSE f.got \in have THEN {} ELSE {"find_id"}))

RotateVerdict(e) ==
  IF ~WF(e.h, e.root) THEN {"harness_" \o c : c \in WFFailing(e.h, e.root)} ELSE
  RotateFailing(e.h, e.root, e.node, e.h2)
   \cup (IF [l |-> e.h2.l, r |-> e.h2.r, p |-> e.h2.p] =
            LET x == Rotate(e.h, e.node) IN [l |-> x.l, r |-> x.r, p |-> x.p] THEN {} ELSE {"exact"})
   \cup (IF e.ret_self THEN {} ELSE {"returns_self"})

\* look-ups repeated on the same objects after in-place edits (rotate, swapped operands, a new root, an unlinked node): at every
\* step each answer is judged against the link structure AS IT IS THEN (an index built earlier must not survive an edit)
\* every operand's parent link points back at the node that holds it
BackLinksOK(h) == \A i \in 1..h.n : (h.l[i] # 0 => h.p[h.l[i]] = i) /\ (h.r[i] # 0 => h.p[h.r[i]] = i)
EditSessionVerdict(e) ==
  UNION {LET st == e.steps[k]  h == st.h IN
         (IF BackLinksOK(h) THEN {} ELSE {"links_inconsistent_after_" \o st.after}) \cup
         (IF \A j \in 1..Len(st.findid) : LET f == st.findid[j]
                                               have == {i \in Reach(h, f.start) : h.nid[i] = f.id} IN
                IF have = {} THEN f.got = 0 ELSE f.got \in have THEN {} ELSE {"find_id_after_" \o st.after})
         \cup (IF \A j \in 1..Len(st.lists) : st.lists[j].got = InOrderNodes(h, st.lists[j].start) THEN {} ELSE {"to_list_after_" \o st.after})
         \cup (IF \A j \in 1..Len(st.roots) : st.roots[j].got = RootOf(h, st.roots[j].start) THEN {} ELSE {"get_root_after_" \o st.after})
         \cup (IF "sibs" \in DOMAIN st => \A j \in 1..Len(st.sibs) : st.sibs[j].got = Sibling(h, st.sibs[j].start) THEN {} ELSE {"get_sibling_after_" \o st.after})
        : k \in 1..Len(e.steps)}

Verdict(e) == CASE e.typ = "visit" -> VisitVerdict(e)
                [] e.typ = "editsession" -> EditSessionVerdict(e)
                [] e.typ = "rotate" -> RotateVerdict(e)
                [] OTHER -> {"harness_unknown_event"}
VARIABLES i, v
Init == i \in 1..N /\ v = {"pending"}
Next == v = {"pending"} /\ v' = Verdict(Events[i]) /\ UNCHANGED i
Report == (v # {"pending"} /\ v # {}) => PrintT(<<"FAIL", Events[i].eid, v>>)
Done == TLCGet("generated") >= 0 /\ PrintT(<<"DONE", N>>)
=============================================================================
