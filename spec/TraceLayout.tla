------------------------------ MODULE TraceLayout ------------------------------
(* Trace validation of TreeLayout.layout (C18). One event per (shape, multipliers): the coordinates after the
   first call, after a second call on the same nodes, and of a freshly built mirrored tree (node k of the mirror
   corresponds to node k of the original). *)
EXTENDS Layout, TLC, Json, IOUtils
Events == ndJsonDeserialize(IOEnv.TRACE_FILE)
N == Len(Events)
Verdict(e) ==
  IF e.outcome # "ok" THEN {"layout_raises"} ELSE
  IF ~e.exact THEN {"coordinates_not_dyadic"} ELSE
  LayoutFailing(e.h, e.root, e.X, e.Y, e.ux, e.uy, e.m)
  \cup (IF e.X2 = e.X /\ e.Y2 = e.Y /\ e.m2 = e.m THEN {} ELSE {"second_layout_differs"})
  \* e.ynd: with units that are not exactly representable every row still equals depth * unit (compared as floats by the harness)
  \cup (IF e.ynd THEN {} ELSE {"row_not_depth_times_unit"})
  \cup (IF e.h.n <= 9 /\ e.X # RefLayoutX(e.h, e.ux) THEN {"drift_reference_layout"} ELSE {})
  \cup (IF e.mirror_ok /\ \A i \in 1..e.h.n : e.XM[i] = -e.X[i] /\ e.YM[i] = e.Y[i] THEN {} ELSE {"mirrored_tree_not_mirrored"})
VARIABLES i, v
Init == i \in 1..N /\ v = {"pending"}
Next == v = {"pending"} /\ v' = Verdict(Events[i]) /\ UNCHANGED i
Report == (v # {"pending"} /\ v # {}) => PrintT(<<"FAIL", Events[i].eid, v>>)
Done == TLCGet("generated") >= 0 /\ PrintT(<<"DONE", N>>)
=============================================================================
