INIT Init
NEXT Next
CONSTRAINT Report
POSTCONDITION Done
CHECK_DEADLOCK FALSE
