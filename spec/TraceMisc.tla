------------------------------ MODULE TraceMisc ------------------------------
(* Trace validation of the behaviour specified in Misc.tla (extra coverage, not one of C01..C18). *)
EXTENDS Misc, TLC, Json, IOUtils
Events == ndJsonDeserialize(IOEnv.TRACE_FILE)
N == Len(Events)
Verdict(e) ==
  CASE e.typ = "mathml" ->
         (IF WellNested(e.tags) THEN {} ELSE {"mathml_" \o RunTags(e.tags, <<>>)})
         \cup (IF Len(e.tags) >= 2 /\ e.tags[1] = <<"o", "math">> /\ e.tags[Len(e.tags)] = <<"c", "math">> THEN {} ELSE {"mathml_not_wrapped_in_math"})
         \cup (IF CountOpen(e.tags, "mn") = e.nconst /\ CountOpen(e.tags, "mi") >= e.nvar THEN {} ELSE {"mathml_leaf_tags"})
    [] e.typ = "terminal" ->
         (IF e.stripped = e.plain THEN {} ELSE {"terminal_text_differs_from_str"})
         \cup (IF e.flags_after = 0 /\ e.flags_before = 0 THEN {} ELSE {"rendering_flag_not_reset"})
         \cup (IF e.changed = 0 => ~e.coloured THEN {} ELSE {"colour_without_change"})
         \cup (IF e.changed > 0 => e.coloured THEN {} ELSE {"change_not_coloured"})
    [] e.typ = "classes" ->
         (IF SeqSet(e.after_add) = SeqSet(e.before) \cup SeqSet(e.added) /\ NoDup(e.after_add) THEN {} ELSE {"add_class_not_set_union"})
         \cup (IF e.after_clear_total = 0 THEN {} ELSE {"clear_classes_leaves_classes"})
    [] e.typ = "tokenset" ->
         (IF Bits(e.sum) = Bits(e.a) \cup Bits(e.b) THEN {} ELSE {"tokenset_add_not_union"})
         \cup (IF \A k \in 1..Len(e.probe) : e.probe[k][2] = (Bits(e.probe[k][1]) \cap Bits(e.sum) # {}) THEN {} ELSE {"tokenset_contains_wrong"})
    [] e.typ = "first" ->
         \* FIRST(Function) <= FIRST(Factor) <= FIRST(FactorPrefix) <= FIRST(Unary) = FIRST(Exp) = FIRST(Mult) = FIRST(Add)
         (IF Bits(e.fn) \subseteq Bits(e.factor) /\ Bits(e.factor) \subseteq Bits(e.prefix) /\ Bits(e.prefix) \subseteq Bits(e.unary)
             /\ e.unary = e.exp /\ e.exp = e.mult /\ e.mult = e.add
             /\ Bits(e.prefix) \ Bits(e.factor) = {0} /\ Bits(e.unary) \ Bits(e.prefix) = {3} THEN {} ELSE {"first_sets_not_nested"})
    [] e.typ = "rules" ->
         (IF NoDup(e.names) /\ NoDup(e.codes) THEN {} ELSE {"rule_names_or_codes_not_unique"})
         \cup (IF \A k \in 1..Len(e.codes) : e.codelens[k] = 2 THEN {} ELSE {"rule_code_not_two_letters"})
    [] e.typ = "pad" ->
         (IF Len(e.out) = (IF Len(e.inp) > e.n THEN Len(e.inp) ELSE e.n) /\ SubSeq(e.out, 1, Len(e.inp)) = e.inp
             /\ (\A k \in (Len(e.inp) + 1)..Len(e.out) : e.out[k] = e.v) /\ e.same_object THEN {} ELSE {"pad_array_wrong"})
    [] e.typ = "truncate" ->
         \* value and result as integers scaled by 10^6: the result is the value rounded to k decimals
         (IF e.res % (10 ^ (6 - e.k)) = 0 /\ 2 * (IF e.res > e.val THEN e.res - e.val ELSE e.val - e.res) <= 10 ^ (6 - e.k) THEN {} ELSE {"truncate_wrong"})
    [] OTHER -> {"harness_unknown_event"}
VARIABLES i, v
Init == i \in 1..N /\ v = {"pending"}
Next == v = {"pending"} /\ v' = Verdict(Events[i]) /\ UNCHANGED i
Report == (v # {"pending"} /\ v # {}) => PrintT(<<"FAIL", Events[i].eid, v>>)
Done == TLCGet("generated") >= 0 /\ PrintT(<<"DONE", N>>)
=============================================================================
