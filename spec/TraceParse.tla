----------------------------- MODULE TraceParse -----------------------------
(* Trace validation for the PARSE family: each recorded ExpressionParser().parse(text) on a fresh
   parser is judged against the reference grammar (C03) and the error contract (C10). *)
EXTENDS Grammar, ExprHeap, TLC, Json, IOUtils
Events == ndJsonDeserialize(IOEnv.TRACE_FILE)
N == Len(Events)
Contract == {"InvalidExpression", "OutOfTokens", "InvalidSyntax", "UnexpectedBehavior", "TrailingTokens", "ValueError"}
\* constants normalised to field elements so that representation (int / float / digits) does not matter
RECURSIVE NormT(_)
NormT(t) == CASE t.k = "c" -> [k |-> "c", v |-> ConstM(t, P)] [] t.k = "v" -> t
              [] IsUn(t.k) -> [k |-> t.k, c |-> NormT(t.c)] [] OTHER -> [k |-> t.k, l |-> NormT(t.l), r |-> NormT(t.r)]
\* the projected term; for trees nested deeper than the JSON reader allows (255 levels) it is rebuilt from the flat heap
TermOfEvent(e) == IF e.deep THEN TermOf(e.h, e.root) ELSE e.term
Verdict(e) ==
  IF e.outcome = "ok" /\ e.deep /\ WFExprFailing(e.h, e.root) # {} THEN WFExprFailing(e.h, e.root) ELSE
  LET tk == SpecTokens(e.buf, FALSE, SgnTable)
      et == IF e.outcome = "ok" THEN TermOfEvent(e) ELSE [k |-> "other"]
      ref == IF tk.ok THEN ParseToks(tk.toks) ELSE Fail
      acc == e.outcome = "ok"
  IN  (IF acc = ref.ok THEN {} ELSE {IF acc THEN "accepts_underivable" ELSE "rejects_derivable"})
 \cup (IF acc \/ e.outcome \in Contract THEN {} ELSE {"error_contract"})
 \cup (IF ~tk.ok /\ ~acc /\ e.outcome # "ValueError" THEN {"unsupported_char_not_valueerror"} ELSE {})
 \cup (IF e.rep.outcome = e.outcome /\ e.rep.same THEN {} ELSE {"repeat_differs"})
 \cup (IF e.shared_same THEN {} ELSE {"long_lived_parser_differs"})
 \cup (IF acc THEN WFExprFailing(e.h, e.root) ELSE {})
 \cup (IF acc /\ ~KnownKinds(et) THEN {"result_not_expression"} ELSE
       IF acc /\ ref.ok THEN
            (IF Same(et, ref.ast) THEN {} ELSE {"value"})
       \cup (IF OperandsKept(et, tk.toks) THEN {} ELSE {"operands"})
       \cup (IF Vars(et) = Vars(ref.ast) THEN {} ELSE {"vars"})
       \cup (IF NormT(et) = NormT(ref.ast) THEN {} ELSE {"drift_ast"})
       ELSE {})
VARIABLES i, v
Init == i \in 1..N /\ v = {"pending"}
Next == v = {"pending"} /\ v' = Verdict(Events[i]) /\ UNCHANGED i
Report == (v # {"pending"} /\ v # {}) => PrintT(<<"FAIL", Events[i].eid, v>>)
Done == TLCGet("generated") >= 0 /\ PrintT(<<"DONE", N>>)
=============================================================================
