------------------------------ MODULE TracePobj ------------------------------
(* Trace validation for the POBJ family (C12, C10 sticky state): each trace is one history of calls on ONE
   ExpressionParser; at every step the observed result must be the fresh parser's result for that text
   (HistoryFree of ParserObject.tla), and every token list handed out must be a new list object.
   Results are interned by the harness: equal ids <=> structurally identical projected values. *)
EXTENDS Integers, Sequences, FiniteSets, TLC, Json, IOUtils
Traces == ndJsonDeserialize(IOEnv.TRACE_FILE)
N == Len(Traces)
VARIABLES tid, l, lids, cached, bad, mode, stale, conf
vars == <<tid, l, lids, cached, bad, mode, stale, conf>>
\* conf: the client has reconfigured the public tokenizer at some point of this history. What is observed from then on is
\* outside the statements of C10 / C12 (which quantify over parse / tokenize / clear_cache histories): it is judged by the
\* model (ParserObject.tla, Configure) but reported under note_ names, which never alarm.
Init == tid \in 1..N /\ l = 1 /\ lids = {} /\ cached = {} /\ bad = {} /\ mode = 1 /\ stale = {} /\ conf = FALSE
\* texts[i].fp / .ft : the fresh parser's answers per tokenizer configuration (1 = default). As in ParserObject.tla, a text whose
\* cache entry may predate a reconfiguration answers as in SOME configuration until clear_cache; every other answer is the
\* fresh answer under the CURRENT configuration.
Ok(ans, res, t, md, st) == IF t \in st THEN \E m \in 1..Len(ans) : res = ans[m] ELSE res = ans[md]
StepVerdict(tr, s, seen, md, st, cf) ==
  CASE s.op = "parse"    -> (IF s.t \in st \/ Ok(tr.texts[s.t].fp, s.res, s.t, md, st) THEN {} ELSE {IF ~cf THEN "parse_depends_on_history" ELSE "note_parse_ignores_configuration"})
    [] s.op = "tokenize" -> (IF Ok(tr.texts[s.t].ft, s.res, s.t, md, st) THEN {} ELSE {IF ~cf THEN "tokenize_depends_on_history" ELSE "note_tokenize_ignores_configuration"})
                            \cup (IF s.lid # 0 /\ s.lid \in seen THEN {"token_list_not_a_copy"} ELSE {})
    \* a brand-new default parser created AFTER the history answers like the one created before it (nothing process-wide was left behind)
    [] s.op = "fparse"    -> (IF s.res = tr.texts[s.t].fp[1] THEN {} ELSE {"new_parser_depends_on_process_history"})
    [] s.op = "ftokenize" -> (IF s.res = tr.texts[s.t].ft[1] THEN {} ELSE {"new_parser_depends_on_process_history"})
    [] OTHER -> {}
Next == /\ l <= Len(Traces[tid].steps)
        /\ LET tr == Traces[tid]  s == tr.steps[l]  v == StepVerdict(tr, s, lids, mode, stale, conf) IN
             /\ bad' = bad \cup {<<l, c>> : c \in v}
             /\ lids' = IF s.op = "tokenize" /\ s.lid # 0 THEN lids \cup {s.lid} ELSE lids
             /\ cached' = IF s.op = "clear" THEN {} ELSE IF s.op \in {"parse", "tokenize", "deepcall"} THEN cached \cup {s.t} ELSE cached
             /\ mode' = IF s.op = "config" THEN s.m ELSE mode
             /\ conf' = (conf \/ s.op = "config")
             /\ stale' = IF s.op = "clear" THEN {} ELSE IF s.op = "config" /\ s.m # mode THEN stale \cup cached ELSE stale
        /\ l' = l + 1 /\ UNCHANGED tid
Finished == l > Len(Traces[tid].steps)
Report == (Finished /\ bad # {}) => PrintT(<<"FAIL", Traces[tid].eid, {x[2] : x \in bad}, {x[1] : x \in bad}>>)
Done == TLCGet("generated") >= 0 /\ PrintT(<<"DONE", N>>)
=============================================================================
