------------------------------ MODULE TracePobj ------------------------------
(* Trace validation for the POBJ family (C12, C10 sticky state): each trace is one history of calls on ONE
   ExpressionParser; at every step the observed result must be the fresh parser's result for that text
   (HistoryFree of ParserObject.tla), and every token list handed out must be a new list object.
   Results are interned by the harness: equal ids <=> structurally identical projected values. *)
EXTENDS Integers, Sequences, FiniteSets, TLC, Json, IOUtils
Traces == ndJsonDeserialize(IOEnv.TRACE_FILE)
N == Len(Traces)
VARIABLES tid, l, lids, cached, bad
vars == <<tid, l, lids, cached, bad>>
Init == tid \in 1..N /\ l = 1 /\ lids = {} /\ cached = {} /\ bad = {}
StepVerdict(tr, s, seen) ==
  CASE s.op = "parse"    -> (IF s.res = tr.texts[s.t].fp THEN {} ELSE {"parse_depends_on_history"})
    [] s.op = "tokenize" -> (IF s.res = tr.texts[s.t].ft THEN {} ELSE {"tokenize_depends_on_history"})
                            \cup (IF s.lid # 0 /\ s.lid \in seen THEN {"token_list_not_a_copy"} ELSE {})
    [] OTHER -> {}
Next == /\ l <= Len(Traces[tid].steps)
        /\ LET tr == Traces[tid]  s == tr.steps[l]  v == StepVerdict(tr, s, lids) IN
             /\ bad' = bad \cup {<<l, c>> : c \in v}
             /\ lids' = IF s.op = "tokenize" /\ s.lid # 0 THEN lids \cup {s.lid} ELSE lids
             /\ cached' = IF s.op = "clear" THEN {} ELSE IF s.op \in {"parse", "tokenize"} THEN cached \cup {s.t} ELSE cached
        /\ l' = l + 1 /\ UNCHANGED tid
Finished == l > Len(Traces[tid].steps)
Report == (Finished /\ bad # {}) => PrintT(<<"FAIL", Traces[tid].eid, {x[2] : x \in bad}, {x[1] : x \in bad}>>)
Done == TLCGet("generated") >= 0 /\ PrintT(<<"DONE", N>>)
=============================================================================
