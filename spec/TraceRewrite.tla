----------------------------- MODULE TraceRewrite -----------------------------
(* Trace validation for the REWRITE family. Event types:
     step  - one rule application on a clone-from-root            (C01 C02 C04 C06 C07)
     probe - can_apply_to / find_nodes / find_node on one tree     (C06) *)
EXTENDS RulesImpl, TLC, Json, IOUtils
Events == ndJsonDeserialize(IOEnv.TRACE_FILE)
N == Len(Events)
FV == IOEnv.F_VALUE = "1"
FS == IOEnv.F_SOL = "1"
FR == IOEnv.F_RT = "1"
FI == IOEnv.F_IMPL = "1"
\* drift of the real code from the implementation-shaped model (never alarmed): applicability and the tree that is built
ImplDriftStep(e) ==
  IF ~FI \/ e.outcome # "ok" \/ e.res = 0 \/ ~WFExpr(e.hb, e.work) \/ WFExprFailing(e.ha, e.res) # {} THEN {} ELSE
  LET s == TermOf(e.hb, e.work)  o == TermOf(e.ha, e.res)  path == PathTo(e.hb, e.node)  ic == ImplCan(e.rule, e.opt, s, path) IN
  IF ~AllConstsHaveValues(s) \/ ic = "unmodelled" THEN {"note_impl_unmodelled"}
  ELSE IF ic = "no" THEN {"drift_impl_applicability"}          \* (the branch classifier is only defined where the model applies)
  ELSE {"branch:" \o BranchOf(e.rule, e.opt, s, path)} \cup
       (IF ~AllConstsHaveValues(o) THEN {"note_impl_unmodelled"}
        ELSE IF NormC(ImplOut(e.rule, e.opt, s, path)) = NormC(o) THEN {} ELSE {"drift_impl_result"})
ImplDriftProbe(e) ==
  IF ~FI \/ e.exc # "" \/ ~WFExpr(e.hb, e.root) THEN {} ELSE
  LET s == TermOf(e.hb, e.root)  io == InOrderNodes(e.hb, e.root) IN
  IF ~AllConstsHaveValues(s) THEN {} ELSE
  IF \A k \in 1..Len(io) : LET ic == ImplCan(e.rule, e.opt, s, PathTo(e.hb, io[k])) IN ic = "unmodelled" \/ (ic = "yes") = e.a1[k]
  THEN {} ELSE {"drift_impl_probe"}
\* a fold that creates a constant the projection cannot hold exactly is judged against the exact big-rational value
\* of c1 op c2: the one new constant of the result must agree with it to 12 significant digits
FoldRounding(e) ==
  IF e.rule # "fold" \/ e.outcome # "ok" \/ e.res = 0 \/ ~WFExpr(e.hb, e.work) \/ WFExprFailing(e.ha, e.res) # {} THEN {} ELSE
  LET s == TermOf(e.hb, e.work)  o == TermOf(e.ha, e.res)  path == PathTo(e.hb, e.node)
      consts(t) == {x \in SubtermSet(t) : x.k = "c"}
      new == consts(o) \ consts(s)
      ex == FoldExact(s, path) IN
  IF ~InexactNew(s, o) \/ ~ex.ok \/ Cardinality(new) # 1 THEN {} ELSE
  LET a == ConstBQ(CHOOSE x \in new : TRUE) IN
  IF ~a.ok THEN {} ELSE IF ApproxSame(ex, a, 12) THEN {"note_fold_within_rounding"} ELSE {"value"}
\* the node handed to the rule is the counterpart (same in-order position) of the node that was asked about
AskedNode(e) == IF e.kw = e.k THEN {} ELSE {"worked_on_another_node"}
Verdict(e) == CASE e.typ = "step" -> StepVerdict(e, FV, FS, FR) \cup AskedNode(e) \cup ImplDriftStep(e) \cup (IF FV THEN FoldRounding(e) ELSE {}) [] e.typ = "probe" -> ProbeVerdict(e) \cup ImplDriftProbe(e) [] e.typ = "print" -> PrintVerdict(e) [] e.typ = "reprobe" -> ReprobeVerdict(e) [] e.typ = "intact" -> IntactVerdict(e) [] OTHER -> {"harness_unknown_event"}
VARIABLES i, v
Init == i \in 1..N /\ v = {"pending"}
Next == v = {"pending"} /\ v' = Verdict(Events[i]) /\ UNCHANGED i
Report == (v # {"pending"} /\ v # {}) => PrintT(<<"FAIL", Events[i].eid, v>>)
Done == TLCGet("generated") >= 0 /\ PrintT(<<"DONE", N>>)
=============================================================================
