----------------------------- MODULE TraceRewrite -----------------------------
(* Trace validation for the REWRITE family. Event types:
     step  - one rule application on a clone-from-root            (C01 C02 C04 C06 C07)
     probe - can_apply_to / find_nodes / find_node on one tree     (C06) *)
EXTENDS Rules, TLC, Json, IOUtils
Events == ndJsonDeserialize(IOEnv.TRACE_FILE)
N == Len(Events)
FV == IOEnv.F_VALUE = "1"
FS == IOEnv.F_SOL = "1"
FR == IOEnv.F_RT = "1"
Verdict(e) == CASE e.typ = "step" -> StepVerdict(e, FV, FS, FR) [] e.typ = "probe" -> ProbeVerdict(e) [] e.typ = "print" -> PrintVerdict(e) [] e.typ = "reprobe" -> ReprobeVerdict(e) [] OTHER -> {"harness_unknown_event"}
VARIABLES i, v
Init == i \in 1..N /\ v = {"pending"}
Next == v = {"pending"} /\ v' = Verdict(Events[i]) /\ UNCHANGED i
Report == (v # {"pending"} /\ v # {}) => PrintT(<<"FAIL", Events[i].eid, v>>)
Done == TLCGet("generated") >= 0 /\ PrintT(<<"DONE", N>>)
=============================================================================
