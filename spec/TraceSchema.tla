------------------------------ MODULE TraceSchema ------------------------------
(* Trace validation for C08: every schema instance emitted by MC_Schemas was replayed into the real rule; the event
   carries the instance (c) and the observation (applicable?, outcome, result term). *)
EXTENDS Schemas, Json, IOUtils
Events == ndJsonDeserialize(IOEnv.TRACE_FILE)
N == Len(Events)
RECURSIVE AtPath(_,_)
AtPath(t, path) == IF Len(path) = 0 THEN t ELSE
                   IF IsLeafK(t.k) THEN t ELSE
                   IF IsUn(t.k) THEN AtPath(t.c, Tail(path)) ELSE AtPath(IF Head(path) = "L" THEN t.l ELSE t.r, Tail(path))
WantSet(c, f(_)) == {f(c.want[k]) : k \in 1..Len(c.want)}
Verdict(e) ==
  LET c == e.c IN
  \* the documented transformation itself must preserve the meaning (a check of the schema, not of the code)
  (IF \A k \in 1..Len(c.want) : Same(c.inp, c.want[k]) THEN {} ELSE {"harness_schema_unsound"})
  \cup
  (IF c.expect = "refuse" THEN (IF e.applicable THEN {"accepts_documented_non_applicable_form"} ELSE {})
   ELSE IF ~e.applicable THEN {"refuses_documented_form"}
   ELSE IF e.outcome # "ok" THEN {"raises_on_documented_form"}
   ELSE IF ~KnownKinds(e.res) THEN {"result_not_expression"}
   ELSE
     (IF NormC(e.res) # NormC(c.inp) \/ NormC(c.inp) \in WantSet(c, NormC) THEN {} ELSE {"rule_did_nothing"})
     \cup (CASE c.mode = "exact" -> (IF NormC(e.res) \in WantSet(c, NormC) THEN {} ELSE IF ACNF(e.res) \in WantSet(c, ACNF) THEN {"drift_grouping"} ELSE {"result_not_documented_shape"})
             [] c.mode = "ac" -> (IF ACNF(e.res) \in WantSet(c, ACNF) THEN {} ELSE {"result_not_documented_shape"})
             [] c.mode = "factored" -> (IF FactoredWithKeep(AtPath(e.res, c.hole), c.fp) /\ Same(e.res, c.inp) THEN {} ELSE {"result_not_documented_shape"})
             [] OTHER -> {"harness_unknown_mode"}))
VARIABLES i, v
Init == i \in 1..N /\ v = {"pending"}
Next == v = {"pending"} /\ v' = Verdict(Events[i]) /\ UNCHANGED i
Report == (v # {"pending"} /\ v # {}) => PrintT(<<"FAIL", Events[i].eid, v>>)
Done == TLCGet("generated") >= 0 /\ PrintT(<<"DONE", N>>)
=============================================================================
