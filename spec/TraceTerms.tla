------------------------------ MODULE TraceTerms ------------------------------
(* Trace validation of the term utilities (C16).
   class  : has_like_terms on every member of a TLC-generated rearrangement class -> one answer for the whole class
   like   : terms_are_like on pairs of term nodes                                  -> reflexive on recognised terms, symmetric
   triple : get_term_ex(parse(text of (c, v, e)))                                  -> exactly (c, v, e)
   make   : make_term(c, v, e)                                                     -> value c * v^e and decomposes back
   factor : factor(n)                                                              -> exactly the divisor pairs
   calls  : every term predicate on a non-equation tree                            -> never raises *)
EXTENDS Terms, Expr, TLC, Json, IOUtils
Events == ndJsonDeserialize(IOEnv.TRACE_FILE)
N == Len(Events)
\* like-term key of each addend form used by the driver (0 = not a term; forms with the same non-zero key are like terms)
FormKey == <<1, 2, 3, 2, 3, 4, 4, 2, 0, 1, 5, 4>>
HasLikeRef(base) == \E i, j \in 1..Len(base) : i < j /\ FormKey[base[i]] # 0 /\ FormKey[base[i]] = FormKey[base[j]]
SetOf(s) == {s[k] : k \in 1..Len(s)}
\* triples: c and e are <<"none">> or <<"q", n, d>>; v is 0 (absent) or a code point
Num(x) == IF x[1] \in {"none", "b"} THEN x ELSE LET q == NormQ(x[2], x[3]) IN <<"q", q[1], q[2]>>
SameTriple(a, b) == Num(a.c) = Num(b.c) /\ a.v = b.v /\ Num(a.e) = Num(b.e)
\* an absent coefficient and the coefficient 1 are the same triple when a variable is present
CoefNorm(tr) == IF tr.v # 0 /\ tr.c[1] = "none" THEN [tr EXCEPT !.c = <<"q", 1, 1>>] ELSE tr
\* the value c * v^e of a triple as a term
QTerm(x) == [k |-> "c", n |-> x[2], d |-> x[3]]
TripleTerm(tr) ==
  LET c == IF tr.c[1] = "none" THEN [k |-> "c", n |-> 1, d |-> 1] ELSE QTerm(tr.c)
      v == [k |-> "v", id |-> tr.v]
      p == IF tr.e[1] = "none" THEN v ELSE [k |-> "pow", l |-> v, r |-> QTerm(tr.e)]
  IN IF tr.v = 0 THEN c ELSE [k |-> "mul", l |-> c, r |-> p]
Verdict(e) ==
  CASE e.typ = "class" ->
         (IF \A k \in 1..Len(e.answers) : e.answers[k] = e.answers[1] THEN {} ELSE {"has_like_terms_depends_on_order_or_grouping"})
         \cup (IF "exc" \in SetOf(e.answers) THEN {"raises"} ELSE {})
         \cup (IF e.answers[1] = (IF HasLikeRef(e.base) THEN "T" ELSE "F") THEN {} ELSE {"drift_reference_answer"})
    [] e.typ = "like" ->
         (IF e.ab = e.ba THEN {} ELSE {"are_like_not_symmetric"})
         \cup (IF (e.rec_a => e.aa = "T") /\ (e.rec_b => e.bb = "T") THEN {} ELSE {"are_like_not_reflexive"})
         \cup (IF "exc" \in {e.ab, e.ba, e.aa, e.bb} THEN {"raises"} ELSE {})
    [] e.typ = "triple" ->
         (IF e.outcome = "ok" /\ SameTriple(e.got, e.want) THEN {} ELSE {"extracted_triple_differs_from_written"})
    [] e.typ = "make" ->
         (IF e.outcome # "ok" THEN {"make_term_raises"} ELSE
            (IF ~KnownKinds(e.term) \/ e.want.c[1] = "b" \/ Equiv(e.term, TripleTerm(e.want)) THEN {} ELSE {"constructed_term_value_wrong"})
            \cup (IF e.back_ok /\ SameTriple(CoefNorm(e.back), CoefNorm(e.want)) THEN {} ELSE {"constructed_term_decomposes_differently"}))
    [] e.typ = "factor" ->
         (LET D == Divisors(e.n) IN IF SetOf(e.keys) = D /\ Len(e.keys) = Cardinality(D)
             /\ \A k \in 1..Len(e.keys) : e.vals[k] * e.keys[k] = e.n THEN {} ELSE {"factor_table_not_divisor_pairs"})
    [] e.typ = "calls" -> (IF e.raised = <<>> THEN {} ELSE {"term_predicate_raises"})
    [] OTHER -> {"harness_unknown_event"}
VARIABLES i, v
Init == i \in 1..N /\ v = {"pending"}
Next == v = {"pending"} /\ v' = Verdict(Events[i]) /\ UNCHANGED i
Report == (v # {"pending"} /\ v # {}) => PrintT(<<"FAIL", Events[i].eid, v>>)
Done == TLCGet("generated") >= 0 /\ PrintT(<<"DONE", N>>)
=============================================================================
