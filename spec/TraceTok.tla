------------------------------ MODULE TraceTok ------------------------------
(* Trace validation for the TOK family (decides C11): every recorded call of the real
   Tokenizer.tokenize is judged against the Tokenizer specification. Total verdicts. *)
EXTENDS Tokenizer, TLC, Json, IOUtils
Events == ndJsonDeserialize(IOEnv.TRACE_FILE)
N == Len(Events)
Obs(o) == [i \in 1..Len(o.t) |-> Tok(o.t[i], o.v[i])]
FSet(e) == {e.funcs[i] : i \in 1..Len(e.funcs)}
Verdict(e) ==
  LET fs == FSet(e)
      sk == SpecTokens(e.buf, TRUE, fs)
      sd == SpecTokens(e.buf, FALSE, fs)
      ok == Obs(e.keep)  od == Obs(e.drop)
      bothOk == e.keep.ok /\ e.drop.ok
  IN  (IF e.keep.ok = sk.ok /\ (sk.ok => ok = sk.toks) THEN {} ELSE {"tokens_keep"})
 \cup (IF e.drop.ok = sd.ok /\ (sd.ok => od = sd.toks) THEN {} ELSE {"tokens_drop"})
 \cup (IF (e.keep.ok <=> ~HasUnsupported(e.buf)) /\ (e.drop.ok <=> ~HasUnsupported(e.buf)) THEN {} ELSE {"reject"})
 \cup (IF (e.keep.ok \/ e.keep.exc = "ValueError") /\ (e.drop.ok \/ e.drop.exc = "ValueError") THEN {} ELSE {"exc_class"})
 \cup (IF e.keep.ok => Lossless(e.buf, ok) THEN {} ELSE {"lossless"})
 \cup (IF (e.keep.ok => OneEOFLast(ok)) /\ (e.drop.ok => OneEOFLast(od)) THEN {} ELSE {"eof"})
 \cup (IF (e.keep.ok => ClassesOK(ok, fs, TRUE)) /\ (e.drop.ok => ClassesOK(od, fs, FALSE)) THEN {} ELSE {"classes"})
 \cup (IF e.keep.ok => NoMissedFunction(ok, fs) THEN {} ELSE {"missed_function"})
 \cup (IF bothOk => od = DropPad(ok) THEN {} ELSE {"droppad"})
VARIABLES i, v
Init == i \in 1..N /\ v = {"pending"}
Next == v = {"pending"} /\ v' = Verdict(Events[i]) /\ UNCHANGED i
Report == (v # {"pending"} /\ v # {}) => PrintT(<<"FAIL", Events[i].eid, v>>)
Done == TLCGet("generated") >= 0 /\ PrintT(<<"DONE", N>>)
=============================================================================
