INIT Init
NEXT Next
CONSTRAINT Report
CONSTRAINT Inexact
POSTCONDITION Done
CHECK_DEADLOCK FALSE
