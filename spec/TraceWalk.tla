------------------------------ MODULE TraceWalk ------------------------------
(* Trace validation of rewriting sessions (C09): TLC follows each recorded walk step by step, keeping the
   session state (start, cur, exact) and judging every step with the Session contract. *)
EXTENDS Session, TLC, Json, IOUtils
Traces == ndJsonDeserialize(IOEnv.TRACE_FILE)
N == Len(Traces)
VARIABLES tid, l, cur, ref, bad
Init == tid \in 1..N /\ l = 1 /\ cur = Traces[tid].start /\ ref = Traces[tid].start /\ bad = {}
Next == /\ l <= Len(Traces[tid].steps)
        /\ LET s == Traces[tid].steps[l]  v == WalkStepClauses(Traces[tid].start, ref, cur, s) IN
             /\ bad' = bad \cup {<<l, c>> : c \in v}
             /\ cur' = NextCur(cur, s)
             /\ ref' = NextRef(ref, cur, s)
        /\ l' = l + 1 /\ UNCHANGED tid
Finished == l > Len(Traces[tid].steps)
Report == (Finished /\ bad # {}) => PrintT(<<"FAIL", Traces[tid].eid, {x[2] : x \in bad}, {x[1] : x \in bad}>>)
Inexact == (Finished /\ ref # Traces[tid].start) => PrintT(<<"NOTE", Traces[tid].eid, "rebased">>)
Done == TLCGet("generated") >= 0 /\ PrintT(<<"DONE", N>>)
=============================================================================
