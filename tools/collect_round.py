#!/venv/bin/python
"""tools/collect_round.py <round> <prop> [<prop> ...]
Copies the two changes an uninformed agent left under /tmp/wt/r<round>-<prop>/_out/{A,B} to seeded/<prop>-<next letters>, confirms each
in a scratch worktree (tools/mutant.py: suite passes, demo 0 on HEAD, 1 with the patch), runs the home check (quick) from the pinned
revision MUTANT_VERIF_REV (the machinery as it stood when the round started) and records that as the first-sight result; then the
agent's worktree is removed."""
import glob, json, os, shutil, string, subprocess, sys
rnd = sys.argv[1]
for prop in sys.argv[2:]:
    src = "/tmp/wt/r%s-%s" % (rnd, prop)
    for ab in ("A", "B"):
        s = os.path.join(src, "_out", ab)
        if not os.path.exists(os.path.join(s, "patch.diff")):
            print(prop, ab, "no patch"); continue
        used = {os.path.basename(d).split("-")[1] for d in glob.glob("/verif/seeded/%s-[A-Z]" % prop)}
        letter = next(c for c in string.ascii_uppercase if c not in used)
        dst = "/verif/seeded/%s-%s" % (prop, letter)
        os.makedirs(dst)
        for f in ("patch.diff", "demo.py", "notes.md"):
            if os.path.exists(os.path.join(s, f)):
                shutil.copy(os.path.join(s, f), dst)
        notes = open(os.path.join(dst, "notes.md")).read() if os.path.exists(os.path.join(dst, "notes.md")) else ""
        json.dump({"property": prop, "round": int(rnd), "origin": "uninformed sub-agent (property text + scratch worktree only), change %s" % ab,
                   "needs_to_manifest": " ".join(notes.split())[:600]}, open(os.path.join(dst, "meta.json"), "w"), indent=1)
        env = dict(os.environ)
        p = subprocess.run(["/verif/tools/mutant.py", dst, "--checks", prop, "--meta"], env=env, stdout=subprocess.PIPE, stderr=subprocess.STDOUT, text=True)
        meta = json.load(open(os.path.join(dst, "meta.json")))
        meta["results_before_round%s_strengthening" % rnd] = dict(meta.get("results", {}), verif_commit=env.get("MUTANT_VERIF_REV", "working tree"))
        json.dump(meta, open(os.path.join(dst, "meta.json"), "w"), indent=1)
        c = meta.get("confirmed", {}); r = meta.get("results", {}).get(prop + "/quick", {})
        print("%s-%s  demo %s/%s  suite[%s]  %s rc=%s viol=%s %ss  %s" % (prop, letter, c.get("demo_head"), c.get("demo_patched"), c.get("suite"), prop, r.get("rc"), r.get("n_viol"), r.get("s"), p.stdout.strip()[-200:] if p.returncode else ""), flush=True)
    subprocess.run(["git", "-C", "/repo", "worktree", "remove", "--force", src])
