#!/venv/bin/python
"""Authoring-time only: list every (clause, shape) with <= 10 nodes for which the pinned tree fails one of the C18
clauses that are recorded as a known finding. Writes known_findings/C18_layout_signatures.txt."""
import os, sys
sys.path.insert(0, os.path.dirname(os.path.dirname(os.path.abspath(__file__))))
from harness import common
from harness.props import c18
ctx = common.Ctx("C18", "thorough", 0)
res = c18.run(ctx)
sigs = sorted({v.sig for v in res.violations if v.sig.split("|")[1] in c18.KNOWN_CLAUSES})
other = sorted({v.sig for v in res.violations if v.sig.split("|")[1] not in c18.KNOWN_CLAUSES})
with open(os.path.join(common.ROOT, "known_findings", "C18_layout_signatures.txt"), "w") as f:
    f.write("\n".join(sigs) + "\n")
print(len(sigs), "signatures written;", len(other), "failures of other clauses:", other[:5])
ctx.cleanup()
