#!/bin/sh
# stops running checks / mutant runs / TLC started from this workspace; never the caller's own shell(s)
skip=" $$ $PPID $(ps -o ppid= -p $PPID 2>/dev/null | tr -d ' ') "
for p in $(pgrep -f 'tools/mutant.py|bin/python ./check C[0-9]|tlc2.TLC'); do case "$skip" in *" $p "*) ;; *) kill "$p" 2>/dev/null;; esac; done; exit 0
