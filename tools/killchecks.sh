#!/bin/sh
# stops running checks / mutant runs / TLC started from this workspace (never by pattern on the caller's own command line)
for p in $(pgrep -f 'tools/mutant.py|/check C[0-9]|tlc2.TLC'); do [ "$p" != "$$" ] && kill "$p" 2>/dev/null; done; exit 0
