#!/venv/bin/python
"""tools/mutant.py <dir-with-patch.diff-and-demo.py> [--checks C11,C03] [--tier quick] [--no-confirm]
Confirms a seeded change (suite passes with it, demo 0 on HEAD / 1 with patch) and runs the named checks against it.
/repo is restored afterwards (git checkout -- .)."""
import argparse, json, os, shutil, subprocess, sys, time
ap = argparse.ArgumentParser(); ap.add_argument("dir"); ap.add_argument("--checks", default=""); ap.add_argument("--tier", default="quick"); ap.add_argument("--no-confirm", action="store_true")
a = ap.parse_args()
d = os.path.abspath(a.dir); patch = os.path.join(d, "patch.diff"); demo = os.path.join(d, "demo.py")
def sh(cmd, cwd="/repo", env=None):
    e = dict(os.environ); e.update(env or {})
    p = subprocess.run(cmd, shell=True, cwd=cwd, env=e, stdout=subprocess.PIPE, stderr=subprocess.STDOUT, text=True)
    return p.returncode, p.stdout
rc, out = sh("git status --porcelain -- mathy_core")
if out.strip(): sys.exit("/repo/mathy_core is dirty: " + out)
res = {"dir": d}
def rundemo():
    shutil.copy(demo, "/repo/_demo_tmp.py")
    try: return sh("PYTHONPATH=. /venv/bin/python _demo_tmp.py")[0]
    finally: os.remove("/repo/_demo_tmp.py")
try:
    if not a.no_confirm: res["demo_head"] = rundemo()
    rc, out = sh("git apply " + patch)
    if rc:
        rc, out = sh("patch -p1 -F3 --no-backup-if-mismatch < " + patch)
        res["applied_with_fuzz"] = True
    if rc:
        sh("git checkout -- . ; git clean -fdq -- mathy_core")
        sys.exit("patch does not apply: " + out)
    if not a.no_confirm:
        res["demo_patched"] = rundemo()
        rc, out = sh("/venv/bin/python -m pytest -q -p no:cacheprovider --timeout=900 -x 2>&1 | tail -3")
        res["suite"] = out.strip().splitlines()[-1] if out.strip() else ""
    res["checks"] = {}
    for c in [c for c in a.checks.split(",") if c]:
        t0 = time.time()
        rc, out = sh("./check %s --tier %s" % (c, a.tier), cwd="/verif")
        viol = [l for l in out.splitlines() if l.startswith("VIOLATION")]
        res["checks"][c] = {"rc": rc, "violations": viol[:6], "n_viol": len(viol), "s": round(time.time() - t0, 1), "tail": out.strip().splitlines()[-1:] }
finally:
    sh("git checkout -- . ; git clean -fdq -- mathy_core")
print(json.dumps(res, indent=1))
