#!/venv/bin/python
"""tools/mutant.py <seeded dir> [--checks C11,C03] [--tier quick] [--no-confirm] [--meta]
Confirms a seeded change in a scratch git worktree of /repo's HEAD (suite passes with it, demo exits 0 on HEAD and 1 with the
patch) and runs the named checks against that worktree (VERIF_REPO).  /repo itself is never touched; the worktree is removed."""
import argparse, json, os, shutil, subprocess, sys, time
ap = argparse.ArgumentParser(); ap.add_argument("dir"); ap.add_argument("--checks", default=""); ap.add_argument("--tier", default="quick")
ap.add_argument("--no-confirm", action="store_true"); ap.add_argument("--meta", action="store_true")
a = ap.parse_args()
d = os.path.abspath(a.dir); patch = os.path.join(d, "patch.diff"); demo = os.path.join(d, "demo.py")
wt = "/tmp/wt/m-%d" % os.getpid()
def sh(cmd, cwd=wt, env=None):
    e = dict(os.environ); e.update(env or {})
    p = subprocess.run(cmd, shell=True, cwd=cwd, env=e, stdout=subprocess.PIPE, stderr=subprocess.STDOUT, text=True)
    return p.returncode, p.stdout
os.makedirs("/tmp/wt", exist_ok=True)
rc, out = sh("git worktree add -q --detach %s HEAD" % wt, cwd="/repo")
if rc: sys.exit("cannot create worktree: " + out)
res = {"dir": d, "repo_head": sh("git rev-parse --short HEAD")[1].strip()}
def rundemo():
    shutil.copy(demo, os.path.join(wt, "_demo_tmp.py"))
    try: return sh("PYTHONPATH=. /venv/bin/python _demo_tmp.py")[0]
    finally: os.remove(os.path.join(wt, "_demo_tmp.py"))
try:
    if not a.no_confirm: res["demo_head"] = rundemo()
    rc, out = sh("git apply " + patch)
    if rc:
        rc, out = sh("patch -p1 -F3 --no-backup-if-mismatch < " + patch)
        res["applied_with_fuzz"] = True
    if rc: sys.exit("patch does not apply: " + out)
    if not a.no_confirm:
        res["demo_patched"] = rundemo()
        rc, out = sh("/venv/bin/python -m pytest -q -p no:cacheprovider --timeout=900 2>&1 | tail -3")
        res["suite"] = out.strip().splitlines()[-1] if out.strip() else ""
    res["checks"] = {}
    # the checks run from a private snapshot of /verif, so editing the harness meanwhile cannot disturb them
    snap = "/tmp/wt/vsnap-%d" % os.getpid()
    if a.checks:
        rev = os.environ.get("MUTANT_VERIF_REV")
        if rev:
            sh("mkdir -p %s && git -C /verif archive %s | tar -x -C %s" % (snap, rev, snap), cwd="/")
        else:
            sh("mkdir -p %s && rsync -a --exclude .git --exclude .work --exclude .proto --exclude seeded --exclude evidence --exclude replays --exclude __pycache__ /verif/ %s/" % (snap, snap), cwd="/")
    for c in [c for c in a.checks.split(",") if c]:
        t0 = time.time()
        rc, out = sh("./check %s --tier %s" % (c, a.tier), cwd=snap, env={"VERIF_REPO": wt})
        viol = [l for l in out.splitlines() if l.startswith("VIOLATION")]
        res["checks"][c] = {"rc": rc, "n_viol": len(viol), "first": [v[:300] for v in viol[:2]], "s": round(time.time() - t0, 1)}
finally:
    sh("git worktree remove --force %s" % wt, cwd="/repo")
    shutil.rmtree("/tmp/wt/vsnap-%d" % os.getpid(), ignore_errors=True)
if a.meta:
    mp = os.path.join(d, "meta.json")
    meta = json.load(open(mp)) if os.path.exists(mp) else {}
    meta.setdefault("results", {})
    conf = dict(meta.get("confirmed") or {})
    conf.update({k: res.get(k) for k in ("repo_head", "demo_head", "demo_patched", "suite", "applied_with_fuzz") if k in res and (k != "repo_head" or "demo_head" in res)})
    meta["confirmed"] = conf
    for c, r in res["checks"].items():
        meta["results"]["%s/%s" % (c, a.tier)] = r
    json.dump(meta, open(mp, "w"), indent=1)
print(json.dumps(res, indent=1))
