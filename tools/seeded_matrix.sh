#!/bin/sh
# runs every seeded change against its home check (and a few related ones), recording results in seeded/<id>/meta.json
cd /verif
for d in seeded/C*-[ABCD]; do
  id=$(basename $d); p=${id%%-*}
  extra=""
  case $p in
    C03) extra=",C10,C12";; C10) extra=",C12,C03";; C08) extra=",C01,C06,C07";; C09) extra=",C01,C06";; C01) extra=",C09,C08";; C02) extra=",C08,C09";;
    C06) extra=",C09";; C07) extra=",C06";; C15) extra=",C14";; C13) extra=",C07";; C04) extra=",C09";; C12) extra=",C10";;
  esac
  rm -f $d/meta.json
  tools/mutant.py $d --checks $p$extra --meta > .work/matrix-$id.json 2>&1
  echo "$id done"
done
