#!/bin/sh
# runs every seeded change that has no recorded result yet against the check of its own property (quick tier)
cd /verif
for d in seeded/C*-[A-F]; do
  id=$(basename $d); p=${id%%-*}
  if [ -f $d/meta.json ] && grep -q "\"$p/quick\"" $d/meta.json; then continue; fi
  tools/mutant.py $d --checks $p --meta > .work/matrix-$id.json 2>&1
  echo "$id done"
done
