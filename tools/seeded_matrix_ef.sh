#!/bin/sh
cd /verif
while pgrep -f "tools/seeded_matrix.sh" > /dev/null; do sleep 30; done
for d in seeded/C*-[EF]; do
  id=$(basename $d); p=${id%%-*}
  extra=""
  case $p in
    C03) extra=",C11,C12";; C10) extra=",C12";; C08) extra=",C01";; C09) extra=",C01";; C01) extra=",C08";; C02) extra=",C09";;
    C06) extra=",C09";; C07) extra=",C01";; C04) extra=",C03";; C12) extra=",C10";; C16) extra=",C03";;
  esac
  rm -f $d/meta.json
  tools/mutant.py $d --checks $p$extra --meta > .work/matrix-$id.json 2>&1
  echo "$id done"
done
