#!/venv/bin/python
"""writes seeded/SUMMARY.md from seeded/*/meta.json and notes.md"""
import glob, json, os, re
rows = []
for d in sorted(glob.glob('/verif/seeded/C*-[A-Z]')):
    id = os.path.basename(d)
    mp = os.path.join(d, 'meta.json')
    m = json.load(open(mp)) if os.path.exists(mp) else {}
    notes = open(os.path.join(d, 'notes.md')).read().strip().splitlines() if os.path.exists(os.path.join(d, 'notes.md')) else [""]
    first = next((l for l in notes if l.strip() and not l.startswith('#')), "")
    first = re.sub(r'\s+', ' ', first)[:230]
    c = m.get('confirmed') or {}
    res = m.get('results', {})
    caught = [k.split('/')[0] for k, v in sorted(res.items()) if v.get('rc') == 1]
    missed = [k.split('/')[0] for k, v in sorted(res.items()) if v.get('rc') == 0]
    rows.append((id, c.get('demo_head'), c.get('demo_patched'), (c.get('suite') or '').split(',')[0], ", ".join(caught) or "-", ", ".join(missed) or "-", first))
with open('/verif/seeded/SUMMARY.md', 'w') as f:
    f.write("# Seeded changes and the checks that catch them (quick tier)\n\n")
    f.write("Produced by independent sub-agents that saw only the property text (round 1: -A/-B; round 2, told the round-1 ideas and asked for harder ones: -C/-D). "
            "`demo on HEAD / with patch` are the exit codes of demo.py (0 = property holds). Each was run by tools/mutant.py in a scratch worktree of /repo's HEAD; "
            "meta.json in each directory has the details.\n\n")
    f.write("| id | demo HEAD / patched | suite with patch | caught by | run but not caught by | what it is |\n|---|---|---|---|---|---|\n")
    for r in rows:
        f.write("| %s | %s / %s | %s | %s | %s | %s |\n" % r)
    home_missed = [r[0] for r in rows if r[0].split('-')[0] not in r[4]]
    f.write("\nChanges not caught by the check of their own property: %s\n" % (", ".join(home_missed) or "none"))
print("written", len(rows))
