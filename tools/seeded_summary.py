#!/venv/bin/python
"""writes seeded/SUMMARY.md from seeded/*/meta.json and notes.md"""
import glob, json, os, re
rows = []
for d in sorted(glob.glob('/verif/seeded/C*-[A-Z]')):
    id = os.path.basename(d)
    mp = os.path.join(d, 'meta.json')
    m = json.load(open(mp)) if os.path.exists(mp) else {}
    notes = open(os.path.join(d, 'notes.md')).read().strip().splitlines() if os.path.exists(os.path.join(d, 'notes.md')) else [""]
    first = next((l for l in notes if l.strip() and not l.startswith('#')), "")
    first = re.sub(r'\s+', ' ', first)[:230]
    c = m.get('confirmed') or {}
    res = m.get('results', {})
    caught = [k.split('/')[0] for k, v in sorted(res.items()) if v.get('rc') == 1]
    missed = [k.split('/')[0] for k, v in sorted(res.items()) if v.get('rc') == 0]
    before = next((v for k, v in m.items() if k.startswith('results_before_')), None)
    home = id.split('-')[0]
    if before is not None:
        b = before.get(home + '/quick', {})
        first_seen = "caught" if b.get('rc') == 1 else ("missed" if b.get('rc') == 0 else "?")
    else:
        first_seen = ""
    rows.append((id, c.get('demo_head'), c.get('demo_patched'), (c.get('suite') or '').split(',')[0], first_seen, ", ".join(caught) or "-", ", ".join(missed) or "-", first))
with open('/verif/seeded/SUMMARY.md', 'w') as f:
    f.write("# Seeded changes and the checks that catch them (quick tier)\n\n")
    f.write("Produced by independent sub-agents that saw only the property text and a scratch worktree (rounds 1-3: letters A-F; from round 2 on they were also told the "
            "earlier ideas, from round 4 on - letters G and later - a general description of what the checks vary; DESIGN.md section 12). "
            "`demo on HEAD / with patch` are the exit codes of demo.py (0 = property holds). Each was run by tools/mutant.py in a scratch worktree of /repo's HEAD "
            "(checks from a snapshot of /verif); meta.json in each directory has the details. `home check when the change arrived` is the verdict of the machinery as it stood "
            "before it was strengthened for that round (rounds 4+); `caught by` is the current machinery, quick tier unless stated.\n\n")
    f.write("| id | demo HEAD / patched | suite with patch | home check when the change arrived | caught by | run but not caught by | what it is |\n|---|---|---|---|---|---|---|\n")
    for r in rows:
        f.write("| %s | %s / %s | %s | %s | %s | %s | %s |\n" % r)
    home_missed = [r[0] for r in rows if r[0].split('-')[0] not in r[5]]
    withdrawn = {"C16-P", "C16-Q", "C08-U", "C14-X", "C12-G", "C10-I", "C08-G", "C06-G", "C16-G", "C06-K", "C03-H", "C11-I", "C09-H", "C14-I", "C10-J", "C12-I", "C06-I", "C06-L", "C05-J", "C02-I",
                 "C11-J", "C09-J", "C03-I", "C14-M", "C13-J", "C09-K", "C13-I", "C06-M"}
    f.write("\nChanges not caught by the check of their own property: %s\n" % (", ".join(home_missed) or "none"))
    f.write("\nOf these, not pursued because the change breaks nothing a listed statement promises (DESIGN.md section 12, review and round 7): %s\n" % ", ".join(x for x in home_missed if x in withdrawn))
    f.write("\nThe others (%s) break the value-preservation / applicability property rather than the one their author named and are caught by that check (see `caught by`).\n" % ", ".join(x for x in home_missed if x not in withdrawn))
with open('/verif/seeded/SUMMARY.md', 'a') as f:
    f.write("\n`seeded/prompts/` keeps one example of the prompt each round's agents were given (rounds 1, 8, 9, 10: the property text only; rounds 11 and 12: plus the ideas of the preceding rounds and a request for multi-step / two-site / unusual-input changes; "
            "rounds 2-3: plus the earlier ideas; rounds 4-7: plus a general description of what the checks vary).\n")
print("written", len(rows))
